------------------------------- MODULE Crc32c -------------------------------
(***************************************************************************)
(* CRC-32C (Castagnoli): reflected polynomial 0x82F63B78, initial value    *)
(* and final XOR 0xFFFFFFFF, as RFC 3720 / Kafka's record batch format     *)
(* use it.  The 32-bit state is held as <<high 16 bits, low 16 bits>> so   *)
(* that everything fits TLC's integers; the table is derived from the      *)
(* polynomial here (not copied).  Check value: "123456789" -> 0xE3069283.  *)
(***************************************************************************)
EXTENDS Integers, Sequences, Bitwise, SequencesExt, Functions

PolyHi == 33526      \* 0x82F6
PolyLo == 15224      \* 0x3B78

RECURSIVE Step8(_, _, _)
Step8(hi, lo, n) ==
  IF n = 0 THEN <<hi, lo>>
  ELSE LET lsb == lo % 2
           lo1 == (lo \div 2) + (hi % 2) * 32768
           hi1 == hi \div 2
       IN IF lsb = 1 THEN Step8(hi1 ^^ PolyHi, lo1 ^^ PolyLo, n - 1)
          ELSE Step8(hi1, lo1, n - 1)

CrcTable == [i \in 0..255 |-> Step8(0, i, 8)]

\* TLC would re-derive a table entry on every access; the table is therefore passed in
\* already evaluated (a state variable or a constant of the user)
CrcStepT(T, acc, b) ==
  LET hi == acc[1] lo == acc[2]
      t == T[(lo % 256) ^^ b]
      lo1 == (lo \div 256) + (hi % 256) * 256
      hi1 == hi \div 256
  IN <<hi1 ^^ t[1], lo1 ^^ t[2]>>

Crc32cT(T, bytes) ==
  LET acc == FoldLeft(LAMBDA a, b : CrcStepT(T, a, b), <<65535, 65535>>, bytes)
  IN <<acc[1] ^^ 65535, acc[2] ^^ 65535>>

\* the four big-endian bytes of a checksum
CrcBytes(c) == <<c[1] \div 256, c[1] % 256, c[2] \div 256, c[2] % 256>>

\* materialised table (sequence indexed 1..256 holding entries 0..255)
TableSeq == [i \in 1..256 |-> Step8(0, i - 1, 8)]
=============================================================================
