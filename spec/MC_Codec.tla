------------------------------ MODULE MC_Codec ------------------------------
(***************************************************************************)
(* Model checking of the definitional codec over the bounded shape         *)
(* universe, and generator of (schema, value, variant, bytes) cases that   *)
(* the harness replays into kio on synthetic dataclasses (spec -> code).   *)
(* Each initial state is one (schema, value) pair; the invariants are the  *)
(* design-level statements of C01, C03, C05 and C06.                       *)
(***************************************************************************)
EXTENDS ShapeUniverse, Json

CONSTANTS Emit          \* TRUE: print one JSON case per (state, variant) for replay

VARIABLES st,    \* "pick": a schema has been chosen; "case": a value of it too
          sc,    \* index of the schema in SchemaSeq
          c      \* the case [s, v] ("case" stage only)
vars == <<st, sc, c>>

SchemaSeq == SetToSeq(AllSchemas)

\* two stages so that TLC's workers share the universe: the successors of each
\* "pick" state (all values of one schema) are generated and checked by one worker
Init == st = "pick" /\ sc \in 1..Len(SchemaSeq) /\ c = <<>>
Next == /\ st = "pick" /\ st' = "case" /\ sc' = sc
        /\ c' \in { [s |-> SchemaSeq[sc], v |-> v] : v \in ValuesOf(SchemaSeq[sc]) }
Spec == Init /\ [][Next]_vars

B == Enc(c.s, c.v)

InDomainInv == st = "case" => WellTyped(c.s, c.v)

\* C01: decode(encode(v)) = v, consuming exactly the encoding, whatever follows
RoundTrip == st = "case" =>
  LET r == Dec(c.s, B) q == DecStruct(c.s, <<7>> \o B \o <<1, 128, 255>>, 1) IN
  /\ r.ok /\ r.val = c.v /\ r.pos = Len(B)
  /\ q.ok /\ q.val = c.v /\ q.pos = Len(B) + 1

\* C03/C05: every conforming encoding decodes to the value; re-encoding is canonical
Canonical == st = "case" =>
  \A var \in Variants :
    LET b == EncStructV(c.s, c.v, var) r == Dec(c.s, b) IN
    /\ r.ok /\ r.val = c.v /\ r.pos = Len(b)
    /\ Enc(c.s, r.val) = B
    /\ (var = CanonVar => b = B)
    /\ Len(b) >= Len(B)

EmitVariants == {CanonVar, [expl |-> 1, unk |-> <<[tag |-> 7, data |-> <<9>>]>>],
                 [expl |-> 2, unk |-> <<[tag |-> 2, data |-> <<1, 2, 3>>], [tag |-> 200, data |-> <<255>>]>>]}
\* C06: no strict prefix of an encoding decodes; it always underflows
PrefixFree == st = "case" =>
  /\ \A k \in 0..(Len(B) - 1) :
       LET r == Dec(c.s, SubSeq(B, 1, k)) IN ~r.ok /\ r.err = "underflow" /\ r.pos <= k
  \* also for the conforming variants (a forward-compatible peer's message cut short)
  /\ \A var \in (IF c.s.flex THEN EmitVariants ELSE {}) :
       LET b == EncStructV(c.s, c.v, var) IN
       \A k \in 0..(Len(b) - 1) : LET r == Dec(c.s, SubSeq(b, 1, k)) IN ~r.ok /\ r.err = "underflow"

EmitInv ==
  (Emit /\ st = "case") => \A var \in (IF c.s.flex THEN EmitVariants ELSE {CanonVar}) :
            PrintT(ToJson([s |-> c.s, v |-> c.v, var |-> var, b |-> EncStructV(c.s, c.v, var)]))
=============================================================================
