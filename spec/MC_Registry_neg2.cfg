SPECIFICATION Spec
CONSTANTS
  Threads = {1, 2}
  MaxOps = 2
  Scratch = "global"
  Evicting = FALSE
  Vals = {1}
  StartKinds = {"w"}
  StartClasses = {"A", "H"}
INVARIANT ResultIsFunction
INVARIANT BuildDiscipline
INVARIANT NoResidue
INVARIANT PrivateDesignHasNoSharedState
CHECK_DEADLOCK FALSE
