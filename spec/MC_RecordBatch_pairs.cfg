SPECIFICATION Spec
CONSTANTS
  MaxRecs = 2
  FlipStride = 3
  Small = TRUE
CHECK_DEADLOCK FALSE
INVARIANT CheckValue
INVARIANT NewBatchRoundTrip
INVARIANT CrcCoversAttributesToEnd
INVARIANT DamageIsDetected
