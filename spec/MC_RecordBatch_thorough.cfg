SPECIFICATION Spec
CONSTANTS
  MaxRecs = 2
  FlipStride = 1
  Small = FALSE
CHECK_DEADLOCK FALSE
INVARIANT CheckValue
INVARIANT NewBatchRoundTrip
INVARIANT CrcCoversAttributesToEnd
INVARIANT DamageIsDetected
