----------------------------- MODULE ProbeTrace -----------------------------
(***************************************************************************)
(* Trace validation of the decoder's *outcomes* on damaged input.          *)
(*                                                                         *)
(* The decoder is a transducer over a consume-only source that ends in one *)
(* of the statuses  returned / underflow / other decode error.  A probe is *)
(* one complete run of kio's decoder on one input, observed at its         *)
(* linearisation point (the return or the raise) together with the source  *)
(* position and the number of read calls.  Two kinds of case:              *)
(*   "trunc" (C06): the input is the first k bytes of a conforming encoding *)
(*      of (schema, value) - the canonical one or a variant with explicit  *)
(*      defaults / unknown tagged fields - a crash point of the stream.  The only allowed status is underflow,*)
(*      with consumed <= k.  (That no strict prefix can decode is the      *)
(*      model-checked lemma PrefixFree of MC_Codec; on the first probes of *)
(*      each case the strict decoder Dec is evaluated here as well.)       *)
(*   "mut" (C10): arbitrary / corrupted bytes.  Allowed: a library         *)
(*      serialization error, ValueError, OverflowError, or a returned      *)
(*      entity that re-encodes; never more bytes consumed than given;      *)
(*      reads <= 2*len + 2 (every read but empty-string reads consumes);   *)
(*      and where the strict decoder accepts the input, the returned value *)
(*      must be the specified one.                                         *)
(***************************************************************************)
EXTENDS TraceIO, Json, IOUtils, TLCExt

Data == JsonDeserialize(IOEnv.KIO_TRACE_FILE)
Schemas == Data.schemas
Cases == Data.cases
N == Len(Cases)

VARIABLES ci, phase, pi, base, fails, lenient
vars == <<ci, phase, pi, base, fails, lenient>>

C == Cases[ci]
S == Schemas[C.sid]

Init == ci = 1 /\ phase = "load" /\ pi = 1 /\ base = <<>> /\ fails = {} /\ lenient = 0

Load ==
  /\ phase = "load"
  /\ IF ci > N THEN phase' = "done" /\ UNCHANGED <<ci, pi, base, fails, lenient>>
     ELSE /\ phase' = "probe" /\ pi' = 1 /\ lenient' = 0
          /\ base' = IF C.mode = "trunc" THEN EncStructV(S, ExpandV(C.value), C.var) ELSE <<>>
          /\ fails' = IF C.mode = "trunc" /\ Bytes(C.enc) # EncStructV(S, ExpandV(C.value), C.var)
                      THEN {[c |-> "harness_input_mismatch", p |-> 0]} ELSE {}
          /\ UNCHANGED ci

AllowedRaise(p) == p.serial \/ "ValueError" \in Range(p.mro) \/ "OverflowError" \in Range(p.mro)

TruncFails(p) ==
     (IF p.k >= 0 /\ p.k < Len(base) THEN {} ELSE {"harness_cut_not_strict_prefix"})
  \cup (IF p.out = "underflow" THEN {}
        ELSE IF p.out = "returned" THEN {"truncated_input_decoded_to_a_value"}
        ELSE IF p.out = "budget" THEN {"decoder_did_not_terminate"}
        ELSE {"truncated_input_raised_other_error"})
  \cup (IF p.consumed <= p.k THEN {} ELSE {"consumed_more_than_given"})
  \cup (IF pi <= 3 /\ p.k >= 0 /\ p.k < Len(base)
        THEN LET r == Dec(S, SubSeq(base, 1, p.k)) IN
             IF ~r.ok /\ r.err = "underflow" THEN {} ELSE {"spec_prefix_free_lemma_broken"}
        ELSE {})

MutFails(p) ==
  LET bs == Bytes(p.b) n == Len(bs) IN
     (IF p.consumed <= n THEN {} ELSE {"consumed_more_than_given"})
  \cup (IF p.reads <= 2 * n + 2 THEN {} ELSE {"reads_not_linear_in_input"})
  \cup (IF p.out = "budget" THEN {"decoder_did_not_terminate"} ELSE {})
  \cup (IF p.out = "raised" /\ ~AllowedRaise(p) THEN {"internal_error_on_malformed_input"} ELSE {})
  \cup (IF p.out = "returned" /\ ~p.reenc THEN {"returned_entity_cannot_be_encoded"} ELSE {})
  \cup (IF p.out = "returned" /\ p.check
        THEN LET r == Dec(S, bs) IN
             IF r.ok /\ (ExpandV(p.rval) # r.val \/ p.consumed # r.pos)
             THEN {"conforming_input_decoded_wrongly"} ELSE {}
        ELSE {})

Probe ==
  /\ phase = "probe"
  /\ IF pi > Len(C.probes) THEN phase' = "verdict" /\ UNCHANGED <<ci, pi, base, fails, lenient>>
     ELSE /\ fails' = fails \cup { [c |-> x, p |-> pi] :
                                    x \in (IF C.mode = "trunc" THEN TruncFails(C.probes[pi])
                                           ELSE MutFails(C.probes[pi])) }
          /\ pi' = pi + 1
          /\ UNCHANGED <<ci, phase, base, lenient>>

Verdict ==
  /\ phase = "verdict"
  /\ PrintT(ToJson([id |-> C.id, fails |-> fails, probes |-> Len(C.probes)]))
  /\ ci' = ci + 1 /\ phase' = "load" /\ fails' = {}
  /\ UNCHANGED <<pi, base, lenient>>

Next == Load \/ Probe \/ Verdict
Spec == Init /\ [][Next]_vars
AllJudged == TLCGet("stats").diameter >= N
=============================================================================
