SPECIFICATION Spec
CHECK_DEADLOCK FALSE
POSTCONDITION AllJudged
