SPECIFICATION Spec
CONSTANT Stride = 16
CHECK_DEADLOCK FALSE
INVARIANT BitsAgreeWithArithmetic
INVARIANT FixedWidthRoundTrip
INVARIANT VarintLemmas
INVARIANT ZigZagLemmas
INVARIANT BlobLemmas
