SPECIFICATION Spec
CONSTANTS
  MaxRecs = 1
  FlipStride = 5
  Small = TRUE
CHECK_DEADLOCK FALSE
INVARIANT CheckValue
INVARIANT NewBatchRoundTrip
INVARIANT CrcCoversAttributesToEnd
INVARIANT DamageIsDetected
