SPECIFICATION Spec
CONSTANT Stride = 1
CHECK_DEADLOCK FALSE
INVARIANT BitsAgreeWithArithmetic
INVARIANT FixedWidthRoundTrip
INVARIANT VarintLemmas
INVARIANT ZigZagLemmas
INVARIANT BlobLemmas
