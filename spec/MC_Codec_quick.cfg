SPECIFICATION Spec
CONSTANTS
  MaxFields = 1
  Rich = TRUE
  Emit = FALSE
INVARIANT InDomainInv
INVARIANT RoundTrip
INVARIANT Canonical
INVARIANT PrefixFree
CHECK_DEADLOCK FALSE
