------------------------------- MODULE MC_Prim -------------------------------
(***************************************************************************)
(* Lemmas about the primitive encodings, checked exhaustively at small     *)
(* widths (every 16-bit value, signed and unsigned; every unsigned varint  *)
(* below 2^16 and their zig-zag images).  The operators are width-generic, *)
(* which is what licenses using them on 32/64-bit values where TLC cannot  *)
(* enumerate.                                                              *)
(***************************************************************************)
EXTENDS KafkaPrim

CONSTANT Stride      \* 1: every 16-bit value; k: every k-th (quick tier), always with the limits

VARIABLES st, blk, v
vars == <<st, blk, v>>

\* two stages so that the 256 blocks are spread over TLC's workers
Init == st = "blk" /\ blk \in 0..255 /\ v = 0
Next == st = "blk" /\ st' = "val" /\ blk' = blk /\ v' \in {(blk * 384) - 32768 + j : j \in {i \in 0..383 : i % Stride = 0 \/ blk \in {0, 85, 86, 170, 171, 255}}}
Spec == Init /\ [][Next]_vars

b == IntBits(v)
Signed16 == v >= -32768 /\ v <= 32767
Unsigned16 == v >= 0 /\ v <= 65535

BitsAgreeWithArithmetic == st = "val" =>
  /\ BitsToInt(b) = v
  /\ BitsToInt(BAdd(b, One)) = v + 1
  /\ BitsToInt(BNeg(b)) = -v
  /\ Canon(b) = IntV(v)
  /\ BLeq(b, IntBits(v + 1)) /\ ~BLeq(IntBits(v + 1), b)

FixedWidthRoundTrip == st = "val" =>
  /\ Signed16 => /\ FromBE(BE(b, 2), TRUE) = b
                 /\ BE(b, 2) = <<((v + 65536) % 65536) \div 256, (v + 65536) % 256>>
                 /\ FitsS(b, 16)
                 /\ (FitsS(b, 8) <=> (v >= -128 /\ v <= 127))
  /\ Unsigned16 => /\ FromBE(BE(b, 2), FALSE) = b
                   /\ BE(b, 2) = <<v \div 256, v % 256>>
                   /\ FitsU(b, 16) /\ (FitsU(b, 8) <=> v <= 255)
  /\ ~Signed16 => ~FitsS(b, 16)
  /\ BE(b, 4) = BE(SExt(Trunc(b, 32), 32), 4)
  /\ FromBE(BE(b, 8), TRUE) = b

VarintLemmas == (st = "val" /\ v >= 0) =>
  LET e == UVar(b) d == DecUVarBits(e \o <<255, 1>>, 0, MaxVarintBytes) IN
  /\ d.ok /\ d.val = b /\ d.pos = Len(e)                      \* reader after writer, ignoring what follows
  /\ Len(e) = (IF v < 128 THEN 1 ELSE IF v < 16384 THEN 2 ELSE 3)   \* minimal length
  /\ \A i \in 1..Len(e) : (e[i] >= 128) <=> (i < Len(e))      \* continuation bits: prefix-free
  /\ (Len(e) > 1 => e[Len(e)] # 0)                             \* no padding group
  /\ \A k \in 0..(Len(e) - 1) : ~DecUVarBits(SubSeq(e, 1, k), 0, MaxVarintBytes).ok

ZigZagLemmas == (st = "val" /\ Signed16) =>
  LET z == ZigZag(b, 32) IN
  /\ UnZigZag(z) = b
  /\ BitsToInt(z) = (IF v >= 0 THEN 2 * v ELSE (-2 * v) - 1)     \* the arithmetic definition
  /\ ZigZag(b, 64) = z                                           \* width-independent inside the range
  /\ Sign(z) = 0
  /\ SVar(b) = UVar(z)
  /\ LET d == DecUVarBits(SVar(b), 0, MaxVarintBytes) IN d.ok /\ UnZigZag(d.val) = b

BlobLemmas == (st = "val" /\ v >= 0 /\ v <= 300) =>
  LET x == BlobV([i \in 1..v |-> 97]) IN
  /\ DecCompactBlob(CompactBlob(x) \o <<1>>, 0, FALSE, TRUE) = Ok(x, Len(CompactBlob(x)))
  /\ DecLegacyString(LegacyString(x), 0, TRUE) = Ok(x, v + 2)
  /\ DecLegacyBytes(LegacyBytes(x), 0, FALSE) = Ok(x, v + 4)
  /\ Len(CompactBlob(x)) = v + (IF v + 1 < 128 THEN 1 ELSE 2)
  /\ DecCompactBlob(CompactBlob(NullV), 0, TRUE, FALSE) = Ok(NullV, 1)
  /\ ~DecCompactBlob(CompactBlob(NullV), 0, FALSE, FALSE).ok
=============================================================================
