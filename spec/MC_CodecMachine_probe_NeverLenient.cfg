SPECIFICATION Spec
CONSTANTS
  MaxLen = 4
  MaxFields = 1
  Rich = FALSE
INVARIANT NeverLenient
CHECK_DEADLOCK FALSE
