SPECIFICATION Spec
CONSTANTS
  MaxFields = 1
  Rich = FALSE
  MaxFail = 4
INVARIANT NeverFails
CHECK_DEADLOCK FALSE
