------------------------------- MODULE Stream -------------------------------
(***************************************************************************)
(* C07: messages are self-delimiting on a sequential stream.               *)
(*                                                                         *)
(* One byte log; a writer that appends (leading junk, then messages, each  *)
(* in one or more write calls, then trailing junk); a reader that first    *)
(* skips the junk and then consumes message after message with exact-size  *)
(* reads.  A message is abstracted to its length (its bytes are pairwise   *)
(* distinct tokens <<k, i>>), which is all that self-delimitation is       *)
(* about: the decoder of message k consumes exactly Len_k tokens.  This is *)
(* the textbook FIFO queue.                                                *)
(***************************************************************************)
EXTENDS Naturals, Sequences, FiniteSets, TLC

CONSTANTS Lens,      \* sequence of message lengths, e.g. <<2, 0, 3>> (a zero-length message is legal)
          Pre, Post, \* number of junk tokens before / after
          MaxChunk   \* the writer / reader move at most this many tokens per call

N == Len(Lens)
Msg(k) == [i \in 1..Lens[k] |-> <<k, i>>]
Junk(tag, n) == [i \in 1..n |-> <<tag, i>>]
RECURSIVE Concat(_)
Concat(k) == IF k = 0 THEN <<>> ELSE Concat(k - 1) \o Msg(k)
Full == Junk("pre", Pre) \o Concat(N) \o Junk("post", Post)
Boundary(k) == Pre + Len(Concat(k))        \* position after message k

VARIABLES log,        \* what has been written so far
          rpos,       \* tokens consumed by the reader
          rmsg,       \* index of the message the reader is in (N+1: done)
          got,        \* tokens of the current message read so far
          delivered   \* messages handed to the application, in order
vars == <<log, rpos, rmsg, got, delivered>>

Init == log = <<>> /\ rpos = 0 /\ rmsg = 0 /\ got = <<>> /\ delivered = <<>>

\* the writer only appends, in chunks that need not respect message boundaries
Write(n) == /\ n \in 1..MaxChunk /\ Len(log) + n <= Len(Full)
            /\ log' = log \o SubSeq(Full, Len(log) + 1, Len(log) + n)
            /\ UNCHANGED <<rpos, rmsg, got, delivered>>

\* the application skips the leading junk itself
SkipPre == /\ rmsg = 0 /\ Len(log) >= Pre
           /\ rpos' = Pre /\ rmsg' = 1 /\ UNCHANGED <<log, got, delivered>>

\* exact-size read inside the current message: never more than the message still needs
Read(n) == /\ rmsg \in 1..N /\ n \in 0..MaxChunk
           /\ Len(got) + n <= Lens[rmsg]            \* the decoder knows how much it still needs
           /\ rpos + n <= Len(log)                   \* only what has arrived
           /\ got' = got \o SubSeq(log, rpos + 1, rpos + n)
           /\ rpos' = rpos + n /\ UNCHANGED <<log, rmsg, delivered>>

Deliver == /\ rmsg \in 1..N /\ Len(got) = Lens[rmsg]
           /\ delivered' = Append(delivered, got) /\ got' = <<>> /\ rmsg' = rmsg + 1
           /\ UNCHANGED <<log, rpos>>

Next == (\E n \in 1..MaxChunk : Write(n)) \/ SkipPre \/ (\E n \in 0..MaxChunk : Read(n)) \/ Deliver
Spec == Init /\ [][Next]_vars /\ WF_vars(Next)

\* ---- properties -------------------------------------------------------------
AppendOnly == [][Len(log') >= Len(log) /\ SubSeq(log', 1, Len(log)) = log]_vars
LogIsPrefixOfStream == log = SubSeq(Full, 1, Len(log))
FIFO == \A k \in 1..Len(delivered) : delivered[k] = Msg(k)
ReaderOnBoundaryWhenIdle == (rmsg \in 1..(N + 1) /\ got = <<>>) => rpos = Boundary(rmsg - 1)
NeverReadsAhead == rmsg \in 1..N => rpos <= Boundary(rmsg)
TrailingBytesUntouched == rmsg = N + 1 => rpos = Boundary(N)
EverythingDelivered == <>(Len(delivered) = N)
=============================================================================
