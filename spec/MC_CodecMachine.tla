--------------------------- MODULE MC_CodecMachine ---------------------------
(***************************************************************************)
(* TotalDecoder: the decoder machine on EVERY byte string up to MaxLen     *)
(* over a small alphabet (the bytes that matter to length prefixes,        *)
(* continuation bits, markers and tags), for every schema of a menu that   *)
(* covers the decoder-relevant kinds: fixed ints, legacy and compact       *)
(* strings (nullable or not), arrays of primitives and of structs,         *)
(* nullable struct, tagged section with a known tag and skipping.          *)
(***************************************************************************)
EXTENDS CodecMachine, ShapeUniverse

CONSTANT MaxLen

Alphabet == {0, 1, 2, 127, 128, 255}
RECURSIVE Strs(_)
Strs(n) == IF n = 0 THEN {<<>>} ELSE {Append(s, c) : s \in Strs(n - 1), c \in Alphabet}
Inputs == UNION {Strs(n) : n \in 0..MaxLen}

P(name, kt, nul, tag, hasd, d) == Fld(name, "prim", FALSE, kt, nul, FALSE, tag, hasd, d, NoSub)
A(name, kt) == Fld(name, "prim", TRUE, kt, FALSE, FALSE, -1, FALSE, NullV, NoSub)
SubF == [name |-> "Sub", flex |-> TRUE, fields |-> <<P("a", "int8", FALSE, -1, FALSE, NullV), P("t", "int16", FALSE, 0, TRUE, IntV(7))>>]
SubL == [name |-> "Sub", flex |-> FALSE, fields |-> <<P("a", "int16", FALSE, -1, FALSE, NullV)>>]
MenuSchemas ==
  { [name |-> "T", flex |-> TRUE,
     fields |-> <<P("s", "string", TRUE, -1, FALSE, NullV), P("t", "int16", FALSE, 1, TRUE, IntV(5)), A("xs", "int8")>>],
    [name |-> "T", flex |-> FALSE,
     fields |-> <<P("s", "string", FALSE, -1, FALSE, NullV), A("xs", "int16"), P("b", "bool", FALSE, -1, FALSE, NullV)>>],
    [name |-> "T", flex |-> TRUE,
     fields |-> <<Fld("ys", "struct", TRUE, "", TRUE, FALSE, -1, FALSE, NullV, SubF), P("u", "uint8", FALSE, -1, FALSE, NullV)>>],
    [name |-> "T", flex |-> TRUE,
     fields |-> <<Fld("c", "struct", FALSE, "", TRUE, FALSE, -1, TRUE, NullV, SubF), P("b", "bytes", TRUE, 2, TRUE, NullV)>>],
    [name |-> "RequestHeader", flex |-> TRUE,
     fields |-> <<P("request_api_key", "int8", FALSE, -1, FALSE, NullV), P("client_id", "string", TRUE, -1, FALSE, NullV)>>],
    [name |-> "T", flex |-> FALSE,
     fields |-> <<Fld("zs", "struct", TRUE, "", FALSE, FALSE, -1, FALSE, NullV, SubL), P("e", "error_code", FALSE, -1, FALSE, NullV)>>] }

Init == \E s \in MenuSchemas, bs \in Inputs : Start(s, bs)
Spec == Init /\ [][Next]_vars /\ WF_vars(Next)
Terminates == <>Final
\* non-vacuity probes (each must be VIOLATED; the driver checks that they are)
NeverReturns == st # "returned"
NeverSkipsUnknownTag == ~(st = "returned" /\ sch.flex /\ Len(src) >= 4 /\ \E i \in 1..Len(src) : src[i] = 127)
NeverLenient == ~(st = "returned" /\ ~Dec(sch, src).ok)
=============================================================================
