----------------------------- MODULE ValueObject -----------------------------
(***************************************************************************)
(* C15: entities are immutable, hashable value objects.                    *)
(*                                                                         *)
(* heap maps object identities to values (a value is a record of two       *)
(* fields; the harness maps "f" and "g" to any two fields of a real        *)
(* class).  Mutators never change the heap and always report an error;     *)
(* Replace / Copy / DeepCopy / Pickle allocate a NEW identity whose value  *)
(* is the specified one and leave the original unchanged; Eq is field-wise *)
(* equality; equal values have equal hashes.  obs is the observation of    *)
(* the last operation, which is what the harness compares with the real    *)
(* object's behaviour, step by step.                                       *)
(***************************************************************************)
EXTENDS Naturals, Sequences, FiniteSets, TLC

CONSTANTS MaxObjs, Vals,
          MaxNew      \* at most this many objects are created from scratch (the rest are derived)

Fields == {"f", "g"}
Value == [Fields -> Vals]

VARIABLES heap,   \* function from live identities 1..n to Value
          obs     \* [op, a, b, fld, val, res]: last operation and its specified observation
vars == <<heap, obs>>

Live == DOMAIN heap
NoObs == [op |-> "init", a |-> 0, b |-> 0, fld |-> "-", val |-> 0, res |-> "-"]
O(op, a, b, fld, val, res) == [op |-> op, a |-> a, b |-> b, fld |-> fld, val |-> val, res |-> res]

Init == heap = <<>> /\ obs = NoObs

Alloc(v) == Append(heap, v)

New(v) == Len(heap) < MaxNew /\ heap' = Alloc(v) /\ obs' = O("new", Len(heap) + 1, 0, "-", 0, "ok")

\* mutators: rejected, nothing changes
SetAttr(o, fld, x) == o \in Live /\ UNCHANGED heap /\ obs' = O("setattr", o, 0, fld, x, "error")
DelAttr(o, fld) == o \in Live /\ UNCHANGED heap /\ obs' = O("delattr", o, 0, fld, 0, "error")
SetNew(o) == o \in Live /\ UNCHANGED heap /\ obs' = O("setnew", o, 0, "-", 0, "error")

\* derivations: a new identity, the original untouched
Replace(o, fld, x) ==
  /\ o \in Live /\ Len(heap) < MaxObjs
  /\ heap' = Alloc([heap[o] EXCEPT ![fld] = x]) /\ obs' = O("replace", o, Len(heap) + 1, fld, x, "ok")
Dup(kind, o) ==
  /\ o \in Live /\ Len(heap) < MaxObjs
  /\ heap' = Alloc(heap[o]) /\ obs' = O(kind, o, Len(heap) + 1, "-", 0, "ok")

\* using an object (encoding it, writing it to a stream, printing it, hashing it) is an observer too
Use(o) == o \in Live /\ UNCHANGED heap /\ obs' = O("use", o, 0, "-", 0, "ok")

\* observers
Eq(a, b) == a \in Live /\ b \in Live /\ UNCHANGED heap
            /\ obs' = O("eq", a, b, "-", 0, IF heap[a] = heap[b] THEN "equal" ELSE "different")
Hash(a, b) == a \in Live /\ b \in Live /\ heap[a] = heap[b] /\ UNCHANGED heap
              /\ obs' = O("hash", a, b, "-", 0, "same_hash")

Next ==
  \/ \E v \in Value : New(v)
  \/ \E o \in 1..MaxObjs, fld \in Fields, x \in Vals : SetAttr(o, fld, x) \/ Replace(o, fld, x)
  \/ \E o \in 1..MaxObjs, fld \in Fields : DelAttr(o, fld)
  \/ \E o \in 1..MaxObjs : SetNew(o) \/ Dup("copy", o) \/ Dup("deepcopy", o) \/ Dup("pickle", o) \/ Use(o)
  \/ \E a, b \in 1..MaxObjs : Eq(a, b) \/ Hash(a, b)
Spec == Init /\ [][Next]_vars

\* ---- properties ----------------------------------------------------------------
Immutable == [][\A o \in DOMAIN heap : o \in DOMAIN heap' /\ heap'[o] = heap[o]]_vars
MutatorsAlwaysRejected == obs.op \in {"setattr", "delattr", "setnew"} => obs.res = "error"
DerivationsAreNewAndEqual ==
  obs.op \in {"copy", "deepcopy", "pickle"} => (obs.b # obs.a /\ heap[obs.b] = heap[obs.a])
ReplaceIsSpecified ==
  obs.op = "replace" => heap[obs.b] = [heap[obs.a] EXCEPT ![obs.fld] = obs.val]
EqIsFieldwise ==
  obs.op = "eq" => ((obs.res = "equal") <=> (\A fld \in Fields : heap[obs.a][fld] = heap[obs.b][fld]))
=============================================================================
