------------------------------- MODULE Codegen -------------------------------
(***************************************************************************)
(* C16 / C04: the translation from an upstream Kafka message definition    *)
(* (clients/src/main/resources/common/message/*.json, see the README there)*)
(* to kio's entity classes, one module per declared version.               *)
(*                                                                         *)
(* An abstract definition:                                                 *)
(*   [kind, name, name_cp, apiKey, valid, flex, fields, common]            *)
(*   version ranges are <<lo, hi>> (hi = 999 for "N+"; <<1, 0>> for        *)
(*   "none"/absent)                                                        *)
(* A field:                                                                *)
(*   [name, name_cp, tk \in {"prim","parr","struct","sarr","cstruct",      *)
(*    "csarr"}, t (primitive type or structure name), versions, nullable,  *)
(*    tagged, tag, hasdefault, default (a value: what the spelling MEANS), *)
(*    ignorable, fields (inline structures)]                               *)
(*                                                                         *)
(* ClassesAt(def, v) is the specified content of the module of version v:  *)
(* the sequence of classes (nested structures first, in field order, each  *)
(* once), every class with its fields valid in v, in order, under kio's    *)
(* naming convention, with nullability, tag, default, flexibility, API key *)
(* and header schema.  Kafka's rules and kio's documented conventions are  *)
(* kept apart: the latter are the operators named KioConvention_*.         *)
(***************************************************************************)
EXTENDS KafkaCodec, SnakeCase

In(r, v) == r[1] <= v /\ v <= r[2]

\* ---- special field names (codegen/parser.py pins these; Kafka has no such notion) -------
TimedeltaNames == {"timeoutMs", "TimeoutMs", "ThrottleTimeMs", "MaxWaitMs", "SessionLifetimeMs",
                   "TransactionTimeoutMs", "MaxLifetimeMs", "SessionTimeoutMs", "RebalanceTimeoutMs",
                   "ExpiryTimePeriodMs", "RenewPeriodMs", "RetentionTimeMs", "HeartbeatIntervalMs",
                   "PushIntervalMs"}
DatetimeNames == {"IssueTimestampMs", "ExpiryTimestampMs", "MaxTimestampMs", "TransactionStartTimeMs",
                  "LogAppendTimeMs"}
ErrorCodeNames == {"ErrorCode", "PartitionErrorCode"}

DropMs(cs) == SubSeq(cs, 1, Len(cs) - 2)

\* kio represents durations, timestamps and error codes by dedicated types
KioConvention_KType(f) ==
  IF f.tk # "prim" THEN f.t
  ELSE IF f.name \in ErrorCodeNames THEN "error_code"
  ELSE IF f.name \in TimedeltaNames THEN (IF f.t = "int32" THEN "timedelta_i32" ELSE "timedelta_i64")
  ELSE IF f.name \in DatetimeNames THEN "datetime_i64"
  ELSE f.t
KioConvention_PyName(f, builtins) ==
  Snake(IF f.tk = "prim" /\ f.name \in (TimedeltaNames \cup DatetimeNames) THEN DropMs(f.name_cp) ELSE f.name_cp,
        builtins)

NumericKTypes == {"int8", "int16", "int32", "int64", "uint16", "uint32", "uint64", "float64"}

Tag(f, v) == IF In(f.tagged, v) THEN f.tag ELSE -1

\* Kafka: a field is nullable in the versions its nullableVersions names.
\* kio: a uuid is always Optional (all-zero = None); a timestamp with default -1 is None;
\*      an ignorable tagged field without default is Optional with default None.
Nullable(f, v) ==
  IF f.tk = "prim" THEN
    LET kt == KioConvention_KType(f) IN
    IF kt \in NumericKTypes THEN FALSE
    ELSE \/ In(f.nullable, v)
         \/ kt = "uuid"                                                     \* KioConvention_UuidOptional
         \/ (kt = "datetime_i64" /\ f.hasdefault /\ f.default = IntV(-1))   \* KioConvention_TimestampMinusOne
         \/ (Tag(f, v) >= 0 /\ f.ignorable /\ ~f.hasdefault)               \* KioConvention_IgnorableTaggedOptional
  ELSE In(f.nullable, v)                \* arrays and structures: Kafka's rule

\* the explicit default of the generated field, if any: <<has, value>>
ZeroDefault(kt) ==       \* KioConvention_IgnorableTaggedDefault: zero for numbers/bool/error, else None
  IF kt \in NumericKTypes \ {"float64"} \/ kt \in {"bool", "error_code"} THEN IntV(0)
  ELSE IF kt = "float64" THEN F64V(<<0, 0, [i \in 1..52 |-> 0]>>)
  ELSE NullV

RECURSIVE ClassOf(_, _, _, _, _, _), FieldOf(_, _, _, _, _), Default(_, _, _, _)

SubFields(d, f) ==
  IF f.tk \in {"struct", "sarr"} THEN f.fields
  ELSE LET cs == SelectSeq(d.common, LAMBDA c : c.name = f.t) IN cs[1].fields
SubVersionsOk(d, f, v) ==
  f.tk \in {"struct", "sarr"} \/ (\E i \in 1..Len(d.common) : d.common[i].name = f.t)

AllNestedHaveDefaults(f) ==     \* the FetchRequest.ReplicaState case: a tagged struct of defaults only
  f.tk = "struct" /\ \A i \in 1..Len(f.fields) : f.fields[i].tk = "prim" /\ f.fields[i].hasdefault

Default(d, f, v, builtins) ==
  LET kt == KioConvention_KType(f) tagged == Tag(f, v) >= 0 IN
  IF f.tk = "prim" THEN
    IF f.hasdefault THEN
      <<TRUE, IF kt = "datetime_i64" /\ f.default = IntV(-1) THEN NullV ELSE f.default>>
    ELSE IF tagged /\ f.ignorable THEN <<TRUE, ZeroDefault(kt)>>
    ELSE <<FALSE, NullV>>
  ELSE IF f.tk = "parr" THEN <<TRUE, SeqV(<<>>)>>                  \* every primitive array defaults to ()
  ELSE IF f.tk \in {"sarr", "csarr"} THEN (IF tagged THEN <<TRUE, SeqV(<<>>)>> ELSE <<FALSE, NullV>>)
  ELSE IF f.tk = "struct" THEN
    IF f.hasdefault THEN <<TRUE, NullV>>                           \* "default": "null"
    ELSE IF tagged /\ AllNestedHaveDefaults(f) THEN
      <<TRUE, RecV([i \in 1..Len(SelectSeq(f.fields, LAMBDA g : In(g.versions, v))) |->
                       Default(d, SelectSeq(f.fields, LAMBDA g : In(g.versions, v))[i], v, builtins)[2]])>>
    ELSE <<FALSE, NullV>>
  ELSE <<FALSE, NullV>>

FieldOf(d, f, v, flexv, builtins) ==
  LET isStruct == f.tk \in {"struct", "sarr", "cstruct", "csarr"}
      arr == f.tk \in {"parr", "sarr", "csarr"}
      dft == Default(d, f, v, builtins) IN
  [name_cp |-> KioConvention_PyName(f, builtins),
   kind |-> IF isStruct THEN "struct" ELSE "prim",
   arr |-> arr,
   ktype |-> IF isStruct THEN "" ELSE KioConvention_KType(f),
   nul |-> Nullable(f, v),
   inul |-> (f.tk = "parr" /\ f.t = "uuid"),
   tag |-> Tag(f, v),
   hasd |-> dft[1], dflt |-> dft[2],
   sub |-> IF isStruct THEN ClassOf(d, f.t, SubFields(d, f), v, flexv, builtins)
           ELSE [name |-> "", flex |-> FALSE, fields |-> <<>>]]

ClassOf(d, name, fields, v, flexv, builtins) ==
  LET vis == SelectSeq(fields, LAMBDA f : In(f.versions, v)) IN
  [name |-> name, flex |-> flexv,
   fields |-> [i \in 1..Len(vis) |-> FieldOf(d, vis[i], v, flexv, builtins)]]

\* the nested structures of a class, depth first in field order, each name once
RECURSIVE NestedNames(_, _, _, _)
NestedNames(d, fields, v, seen) ==
  LET vis == SelectSeq(fields, LAMBDA f : In(f.versions, v))
      RECURSIVE walk(_, _)
      walk(i, acc) ==
        IF i > Len(vis) THEN acc
        ELSE LET f == vis[i] IN
          IF f.tk \in {"struct", "sarr", "cstruct", "csarr"} /\ f.t \notin Range(acc) THEN
            LET inner == NestedNames(d, SubFields(d, f), v, acc) IN
            walk(i + 1, IF f.t \in Range(inner) THEN inner ELSE Append(inner, f.t))
          ELSE walk(i + 1, acc)
  IN walk(1, seen)

\* fields of the structure called `name` somewhere below `fields`
RECURSIVE FindFields(_, _, _, _)
FindFields(d, fields, v, name) ==
  LET vis == SelectSeq(fields, LAMBDA f : In(f.versions, v))
      hits == SelectSeq(vis, LAMBDA f : f.tk \in {"struct", "sarr", "cstruct", "csarr"} /\ f.t = name)
      RECURSIVE deep(_)
      deep(i) == IF i > Len(vis) THEN <<>>
                 ELSE LET f == vis[i] IN
                   IF f.tk \in {"struct", "sarr", "cstruct", "csarr"} THEN
                     LET r == FindFields(d, SubFields(d, f), v, name) IN IF r # <<>> THEN r ELSE deep(i + 1)
                   ELSE deep(i + 1)
  IN IF hits # <<>> THEN <<SubFields(d, hits[1])>> ELSE deep(1)

\* Kafka's ApiMessageTypeGenerator header rule (as in SchemaModel)
HeaderOf(d, v, flexv) ==
  IF d.kind = "request" THEN <<"RequestHeader", IF d.apiKey = 7 /\ v = 0 THEN 0 ELSE IF flexv THEN 2 ELSE 1>>
  ELSE IF d.kind = "response" THEN <<"ResponseHeader", IF d.apiKey = 18 THEN 0 ELSE IF flexv THEN 1 ELSE 0>>
  ELSE <<"", -1>>

\* the module of version v: classes in definition order (nested first), with class-level facts
ClassesAt(d, v, builtins) ==
  LET flexv == In(d.flex, v)
      names == NestedNames(d, d.fields, v, <<>>)
      hdr == HeaderOf(d, v, flexv)
      mk(name, fields, top) ==
        [schema |-> ClassOf(d, name, fields, v, flexv, builtins),
         etype |-> IF top THEN d.kind ELSE "nested", version |-> v, flex |-> flexv,
         api_key |-> IF d.kind \in {"request", "response"} THEN d.apiKey ELSE -1000,
         header_name |-> hdr[1], header_version |-> hdr[2]]
  IN [i \in 1..Len(names) |-> mk(names[i], FindFields(d, d.fields, v, names[i])[1], FALSE)]
     \o <<mk(d.name, d.fields, TRUE)>>

\* package name of the API: snake case of the name without Request/Response
ReqSuffix == <<82, 101, 113, 117, 101, 115, 116>>
RespSuffix == <<82, 101, 115, 112, 111, 110, 115, 101>>
EndsWithCp(cs, suf) == Len(cs) >= Len(suf) /\ SubSeq(cs, Len(cs) - Len(suf) + 1, Len(cs)) = suf
ApiPackage(d, builtins) ==
  LET s == Snake(d.name_cp, builtins)
      req == <<95>> \o [i \in 1..7 |-> ToLower(ReqSuffix[i])]
      resp == <<95>> \o [i \in 1..8 |-> ToLower(RespSuffix[i])]
      s1 == IF EndsWithCp(s, resp) THEN SubSeq(s, 1, Len(s) - Len(resp)) ELSE s
  IN IF EndsWithCp(s1, req) THEN SubSeq(s1, 1, Len(s1) - Len(req)) ELSE s1
=============================================================================
