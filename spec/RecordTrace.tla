----------------------------- MODULE RecordTrace -----------------------------
(***************************************************************************)
(* Trace validation of kio.records against RecordBatch.tla.                *)
(*                                                                         *)
(* mode "enc"  : pass 1 - print the specified bytes of a new batch         *)
(* mode "new"  : C17 - kio wrote a NewRecordBatch; every write call keeps  *)
(*               the sink a prefix of EncNew(params, records); the sink    *)
(*               ends equal to it; the strict decoder recovers the input   *)
(* mode "read" : C18 - kio read a well-formed batch (specified bytes or a  *)
(*               real-broker fixture): the returned batch = DecBatch(input)*)
(*               and writing it back reproduces the input; every fault     *)
(*               (single-bit flip from the CRC field to the end, wrong     *)
(*               magic, truncation) must have made reading fail            *)
(*                                                                         *)
(* Named deviation (known finding, see known_findings.txt):                *)
(*   Dev_RecordTimestampWholeSeconds - kio's reader drops the millisecond  *)
(*   part of record timestamps.  It is accepted ONLY in exactly that form  *)
(*   (seconds*1000 <= wire < seconds*1000 + 1000, remainder 0) and is      *)
(*   reported as such; the write-back is then compared with the encoding   *)
(*   of the batch kio returned.                                            *)
(***************************************************************************)
EXTENDS RecordBatch, TraceIO, Json, IOUtils, TLCExt

Data == JsonDeserialize(IOEnv.KIO_TRACE_FILE)
Cases == Data.cases
N == Len(Cases)

VARIABLES ci, T
vars == <<ci, T>>
TT == [i \in 0..255 |-> T[i + 1]]

\* ---- JSON -> abstract -------------------------------------------------------
JRec(r) == [attrs |-> r.attrs, ts |-> r.ts, offset |-> r.offset, key |-> ExpandV(r.key),
            value |-> ExpandV(r.value),
            headers |-> [i \in 1..Len(r.headers) |-> <<ExpandV(r.headers[i][1]), ExpandV(r.headers[i][2])>>]]
JRecs(rs) == [i \in 1..Len(rs) |-> JRec(rs[i])]

\* seconds * 1000 on bit vectors: 1000 = 2^9+2^8+2^7+2^6+2^5+2^3
Times1000(b) ==
  LET RECURSIVE sh(_, _) sh(x, k) == IF k = 0 THEN x ELSE sh(Shl1(x), k - 1) IN
  BAdd(BAdd(BAdd(BAdd(BAdd(sh(b, 9), sh(b, 8)), sh(b, 7)), sh(b, 6)), sh(b, 5)), sh(b, 3))

\* kio's record timestamp crosses as <<whole seconds value, remaining milliseconds>>
KioTs(r) == Canon(BAdd(Times1000(ValBits(r.ts_s)), NatBits(r.ts_ms)))
TruncatedToSeconds(r, wire) ==
  LET secs1000 == Times1000(ValBits(r.ts_s)) d == BAdd(ValBits(wire), BNeg(secs1000)) IN
  r.ts_ms = 0 /\ Sign(d) = 0 /\ FitsS(d, 31) /\ BitsToInt(d) > 0 /\ BitsToInt(d) < 1000

KioBatch(b) ==      \* the batch kio returned, as an abstract batch
  [base_offset |-> b.base_offset, batch_length |-> b.batch_length, ple |-> b.ple,
   crc |-> <<b.crc[1], b.crc[2]>>, attributes |-> b.attributes,
   last_offset_delta |-> b.last_offset_delta, base_ts |-> b.base_ts, max_ts |-> b.max_ts,
   producer_id |-> b.producer_id, producer_epoch |-> b.producer_epoch, base_seq |-> b.base_seq,
   records |-> [i \in 1..Len(b.records) |->
                  LET r == b.records[i] IN
                  [attrs |-> r.attrs, ts |-> KioTs(r), offset |-> r.offset, key |-> ExpandV(r.key),
                   value |-> ExpandV(r.value),
                   headers |-> [j \in 1..Len(r.headers) |-> <<ExpandV(r.headers[j][1]), ExpandV(r.headers[j][2])>>]]]]

\* ---- write-call validation (shared) ------------------------------------------
WriteFails(evs, out, exp) ==
  LET RECURSIVE walk(_, _, _)
      walk(j, pos, f) ==
        IF j > Len(evs) THEN
          f \cup (IF out = "ok" THEN {} ELSE {"writer_raised"})
            \cup (IF out = "ok" /\ pos # Len(exp) THEN {"output_incomplete"} ELSE {})
        ELSE LET e == evs[j] IN
          IF e.op # "w" THEN walk(j + 1, pos, f \cup {"sink_used_other_than_write"})
          ELSE walk(j + 1, pos + e.n,
                    f \cup (IF pos + e.n <= Len(exp) /\ SubSeq(exp, pos + 1, pos + e.n) = Bytes(e.d)
                            THEN {} ELSE {"write_diverges_from_batch_format"}))
  IN walk(1, 0, {})

\* ---- C17 ---------------------------------------------------------------------
NewFails(c) ==
  LET recs == JRecs(c.recs) IN
  IF ~NewBatchDomain(c.p, recs) THEN {"harness_outside_domain"}
  ELSE LET exp == EncNew(TT, c.p, recs) d == DecBatch(TT, exp) IN
       WriteFails(c.wev, c.wout, exp)
       \cup (IF d.ok /\ d.batch.records = recs /\ d.pos = Len(exp) THEN {} ELSE {"spec_decoder_does_not_recover_input"})

\* ---- C18 ---------------------------------------------------------------------
RecordFails(kr, dr) ==      \* kio's record vs the decoded one
     (IF kr.attrs = dr.attrs /\ kr.offset = dr.offset /\ ExpandV(kr.key) = dr.key /\ ExpandV(kr.value) = dr.value
         /\ [i \in 1..Len(kr.headers) |-> <<ExpandV(kr.headers[i][1]), ExpandV(kr.headers[i][2])>>] = dr.headers
      THEN {} ELSE {"record_field_differs"})
  \cup (IF KioTs(kr) = dr.ts THEN {}
        ELSE IF TruncatedToSeconds(kr, dr.ts) THEN {"known:record_timestamp_truncated_to_seconds"}
        ELSE {"record_timestamp_differs"})

FaultFails(f, n) ==
     (IF f.kind = "flip" /\ ~(f.pos >= 17 /\ f.pos < n /\ f.bit \in 0..7) THEN {"harness_fault_outside_checksummed_region"} ELSE {})
  \cup (IF f.kind = "trunc" /\ ~(f.pos >= 0 /\ f.pos < n) THEN {"harness_fault_not_a_truncation"} ELSE {})
  \cup (IF f.out = "raised" THEN {}
        ELSE {IF f.kind = "flip" THEN "corrupted_batch_was_read"
              ELSE IF f.kind = "trunc" THEN "truncated_batch_was_read" ELSE "wrong_magic_was_read"})

ReadFails(c) ==
  LET input == Bytes(c.input) d == DecBatch(TT, input) IN
  IF ~d.ok THEN {"harness_input_not_well_formed"}
  ELSE IF c.src = "spec" /\ input # (IF c.given THEN EncGiven(TT, c.p, JRecs(c.recs)) ELSE EncNew(TT, c.p, JRecs(c.recs)))
       THEN {"harness_input_mismatch"}
  ELSE IF c.rout # "ok" THEN {"reader_rejected_well_formed_batch"}
  ELSE
  LET kb == c.rbatch db == d.batch
      hdr ==   (IF kb.base_offset = db.base_offset /\ kb.batch_length = db.batch_length /\ kb.ple = db.ple
                   /\ <<kb.crc[1], kb.crc[2]>> = db.crc /\ kb.attributes = db.attributes
                   /\ kb.last_offset_delta = db.last_offset_delta /\ kb.base_ts = db.base_ts
                   /\ kb.max_ts = db.max_ts /\ kb.producer_id = db.producer_id
                   /\ kb.producer_epoch = db.producer_epoch /\ kb.base_seq = db.base_seq
                THEN {} ELSE {"batch_header_field_differs"})
      recf == IF Len(kb.records) # Len(db.records) THEN {"record_count_differs"}
              ELSE UNION {RecordFails(kb.records[i], db.records[i]) : i \in 1..Len(db.records)}
      dev == "known:record_timestamp_truncated_to_seconds" \in recf
      back == IF c.consumed = d.pos THEN {} ELSE {"reader_consumed_differs"}
      wexp == IF dev THEN EncPrepared(KioBatch(kb)) ELSE input
      wres == WriteFails(c.wev, c.wout, wexp)
      wf == IF recf \ {"known:record_timestamp_truncated_to_seconds"} # {} \/ hdr # {} THEN {}
            ELSE IF wres # {} THEN {"write_back_differs"}
            ELSE IF dev /\ wexp # input THEN {"known:write_back_differs_because_of_truncated_timestamps"}
            ELSE {}
      faults == UNION { FaultFails(c.faults[j], Len(input)) : j \in 1..Len(c.faults) }
  IN hdr \cup recf \cup back \cup wf \cup faults

\* ---- the walk ------------------------------------------------------------------
Init == ci = 1 /\ T = TableSeq
Next ==
  /\ ci <= N
  /\ LET c == Cases[ci] IN
     IF c.mode = "enc" THEN
       LET recs == JRecs(c.recs) b == IF c.given THEN EncGiven(TT, c.p, recs) ELSE EncNew(TT, c.p, recs) IN
       PrintT(ToJson([id |-> c.id, dom |-> (c.given \/ NewBatchDomain(c.p, recs)), b |-> PrintBytes(b)]))
     ELSE PrintT(ToJson([id |-> c.id, fails |-> IF c.mode = "new" THEN NewFails(c) ELSE ReadFails(c)]))
  /\ ci' = ci + 1 /\ T' = T
Spec == Init /\ [][Next]_vars
AllJudged == TLCGet("stats").diameter >= N
=============================================================================
