SPECIFICATION Spec
CONSTANTS
  MaxFields = 1
  Rich = FALSE
  MaxFail = 4
INVARIANT RefinesDefinition
INVARIANT SinkIsPrefix
INVARIANT StagingIsBalanced
INVARIANT FailureIsClean
PROPERTY AppendOnly
PROPERTY Terminates
CHECK_DEADLOCK FALSE
