---------------------------- MODULE ValueObjectSim ----------------------------
(* ValueObject with a history variable: operation sequences for replay on real entities. *)
EXTENDS ValueObject, Json
VARIABLE hist
SimInit == Init /\ hist = <<>>
SimNext == Next /\ hist' = Append(hist, [obs' EXCEPT !.a = obs'.a])
SimSpec == SimInit /\ [][SimNext]_<<vars, hist>>
Export == Len(hist) >= 10 => PrintT(ToJson([ops |-> hist, heap |-> heap]))

\* exhaustive short behaviours: create, derive or create again, then observe (every such
\* behaviour of the model, not a sample)
Short == Len(hist) <= 4
ExportShort == (Len(hist) = 3 /\ hist[1].op = "new" /\ hist[2].op \in {"new", "replace", "copy", "deepcopy", "pickle"}
                /\ hist[3].op \in {"eq", "hash"} /\ hist[3].a # hist[3].b)
               => PrintT(ToJson([ops |-> hist, heap |-> heap]))
\* ... and: two objects, one of them used, then observed (using an object must not change what it equals)
ExportUsed == (Len(hist) = 4 /\ hist[1].op = "new" /\ hist[2].op \in {"new", "replace", "copy", "deepcopy", "pickle"}
               /\ hist[3].op = "use" /\ hist[4].op \in {"eq", "hash"} /\ hist[4].a # hist[4].b)
              => PrintT(ToJson([ops |-> hist, heap |-> heap]))
=============================================================================
