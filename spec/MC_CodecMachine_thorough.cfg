SPECIFICATION Spec
CONSTANTS
  MaxLen = 6
  MaxFields = 1
  Rich = FALSE
INVARIANT FinalStatus
INVARIANT StaysInside
INVARIANT LinearReads
INVARIANT RefinesStrict
INVARIANT ReturnedReencodes
PROPERTY Terminates
CHECK_DEADLOCK FALSE
