---------------------------- MODULE EncoderMachine ----------------------------
(***************************************************************************)
(* The encoder as an operational machine shaped like kio's entity writer:  *)
(* a transducer over an append-only sink.  A work stack `todo` holds what  *)
(* is left to do; `bufs` is a stack of byte buffers whose bottom is the    *)
(* sink and whose other elements are the PRIVATE staging buffers of the    *)
(* open tagged sections and tagged fields (io.BytesIO in the code).  One   *)
(* step performs one write call on the top buffer, or opens / closes a     *)
(* staging buffer.  The sink may raise at any of its write calls (WFail):  *)
(* then every frame and staging buffer of the call is dropped and nothing  *)
(* else changes.                                                           *)
(*                                                                         *)
(* Properties (MC_EncoderMachine, over the bounded shape universe):        *)
(*   RefinesDefinition  when the machine is done, sink = sink0 \o Enc(s,v) *)
(*   AppendOnly         the sink only grows                                *)
(*   SinkIsPrefix       at every step the sink is a prefix of the final    *)
(*                      bytes: staged bytes are never visible early        *)
(*   StagingIsBalanced  done => no staging buffer is left                  *)
(*   FailureIsClean     after WFail no frame or staging buffer survives    *)
(*                      and the sink holds exactly what was written before *)
(***************************************************************************)
EXTENDS KafkaCodec

VARIABLES schema, value,   \* fixed per behaviour
          sink0,           \* what the stream held before the call
          bufs,            \* stack of buffers, bufs[1] = sink
          counts,          \* number of tagged fields written per open section
          todo,            \* work stack (head = next)
          status,          \* "run" | "done" | "failed"
          nwrites,         \* write calls issued on the sink so far
          failAt           \* the sink raises on this write call (0: never)
vars == <<schema, value, sink0, bufs, counts, todo, status, nwrites, failAt>>

Item(op, s, f, x, d) == [op |-> op, s |-> s, f |-> f, x |-> x, d |-> d]
NoS == [name |-> "", flex |-> FALSE, fields |-> <<>>]
NoF == [name |-> "", kind |-> "prim", arr |-> FALSE, ktype |-> "int8", nul |-> FALSE, inul |-> FALSE,
        tag |-> -1, hasd |-> FALSE, dflt |-> NullV, sub |-> NoS]
Bytes(d) == Item("bytes", NoS, NoF, NullV, d)

Top == bufs[Len(bufs)]
PutTop(d) == [bufs EXCEPT ![Len(bufs)] = @ \o d]

\* expansion of one work item into the items that implement it
Expand(w) ==
  IF w.op = "struct" THEN
    LET s == w.s v == w.x U == UntaggedIdx(s) T == TaggedIdx(s)
        present == SelectSeq(T, LAMBDA i : v.rec[i] # DefaultOf(s.fields[i])) IN
    [j \in 1..Len(U) |-> Item("field", s, s.fields[U[j]], v.rec[U[j]], <<>>)]
    \o (IF s.flex THEN
          <<Item("opensec", s, NoF, NullV, <<>>)>>
          \o Flatten([j \in 1..Len(present) |->
                <<Item("openfld", s, s.fields[present[j]], NullV, <<>>),
                  Item("field", s, s.fields[present[j]], v.rec[present[j]], <<1>>),    \* d = <<1>>: tagged position
                  Item("closefld", s, s.fields[present[j]], NullV, <<>>)>>])
          \o <<Item("closesec", s, NoF, NullV, <<>>)>>
        ELSE <<>>)
  ELSE IF w.op = "field" THEN
    LET s == w.s f == w.f x == w.x IN
    IF f.arr THEN
      IF IsNull(x) THEN <<Bytes(ArrLen(FieldFlex(s, f), -1))>>
      ELSE <<Bytes(ArrLen(FieldFlex(s, f), Len(x.seq)))>>
           \o [j \in 1..Len(x.seq) |-> Item("item", s, f, x.seq[j], <<>>)]
    ELSE IF f.kind = "struct" /\ f.nul THEN
      IF IsNull(x) THEN <<Bytes(<<NullableStructNull>>)>>
      ELSE <<Bytes(<<NullableStructPresent>>), Item("struct", f.sub, NoF, x, <<>>)>>
    ELSE <<Item("item", s, f, x, <<>>)>>
  ELSE \* "item"
    IF w.f.kind = "prim" THEN <<Bytes(EncPrim(w.f.ktype, FieldFlex(w.s, w.f), w.x))>>
    ELSE <<Item("struct", w.f.sub, NoF, w.x, <<>>)>>

Start(s, v, pre, k) ==
  /\ schema = s /\ value = v /\ sink0 = pre /\ bufs = <<pre>> /\ counts = <<>>
  /\ todo = <<Item("struct", s, NoF, v, <<>>)>> /\ status = "run" /\ nwrites = 0 /\ failAt = k

StepExpand ==
  /\ status = "run" /\ todo # <<>> /\ Head(todo).op \in {"struct", "field", "item"}
  /\ todo' = Expand(Head(todo)) \o Tail(todo)
  /\ UNCHANGED <<schema, value, sink0, bufs, counts, status, nwrites, failAt>>

\* one write call on the top buffer; on the sink it may be the failing one
StepWrite ==
  /\ status = "run" /\ todo # <<>> /\ Head(todo).op = "bytes"
  /\ IF Len(bufs) = 1 /\ nwrites + 1 = failAt THEN
       \* WFail: the stream raises; frames and staging buffers of the call are dropped
       /\ status' = "failed" /\ todo' = <<>> /\ bufs' = <<bufs[1]>> /\ counts' = <<>>
       /\ nwrites' = nwrites + 1 /\ UNCHANGED <<schema, value, sink0, failAt>>
     ELSE
       /\ bufs' = PutTop(Head(todo).d) /\ todo' = Tail(todo)
       /\ nwrites' = IF Len(bufs) = 1 THEN nwrites + 1 ELSE nwrites
       /\ UNCHANGED <<schema, value, sink0, counts, status, failAt>>

StepOpenSec ==
  /\ status = "run" /\ todo # <<>> /\ Head(todo).op = "opensec"
  /\ bufs' = Append(bufs, <<>>) /\ counts' = Append(counts, 0) /\ todo' = Tail(todo)
  /\ UNCHANGED <<schema, value, sink0, status, nwrites, failAt>>

StepOpenFld ==
  /\ status = "run" /\ todo # <<>> /\ Head(todo).op = "openfld"
  /\ bufs' = Append(bufs, <<>>) /\ todo' = Tail(todo)
  /\ UNCHANGED <<schema, value, sink0, counts, status, nwrites, failAt>>

\* close a tagged field: tag, size and the staged value go to the section's buffer
StepCloseFld ==
  /\ status = "run" /\ todo # <<>> /\ Head(todo).op = "closefld"
  /\ LET data == Top rest == SubSeq(bufs, 1, Len(bufs) - 1) IN
     /\ bufs' = [rest EXCEPT ![Len(rest)] = @ \o UVarNat(Head(todo).f.tag) \o UVarNat(Len(data)) \o data]
     /\ counts' = [counts EXCEPT ![Len(counts)] = @ + 1]
  /\ todo' = Tail(todo) /\ UNCHANGED <<schema, value, sink0, status, nwrites, failAt>>

\* close a tagged section: the count and the staged fields become write calls on the buffer below
StepCloseSec ==
  /\ status = "run" /\ todo # <<>> /\ Head(todo).op = "closesec"
  /\ LET data == Top IN
     /\ bufs' = SubSeq(bufs, 1, Len(bufs) - 1)
     /\ todo' = <<Bytes(UVarNat(counts[Len(counts)])), Bytes(data)>> \o Tail(todo)
     /\ counts' = SubSeq(counts, 1, Len(counts) - 1)
  /\ UNCHANGED <<schema, value, sink0, status, nwrites, failAt>>

Finish ==
  /\ status = "run" /\ todo = <<>> /\ status' = "done"
  /\ UNCHANGED <<schema, value, sink0, bufs, counts, todo, nwrites, failAt>>

Next == StepExpand \/ StepWrite \/ StepOpenSec \/ StepOpenFld \/ StepCloseFld \/ StepCloseSec \/ Finish

\* ---- properties ----------------------------------------------------------------
Final == sink0 \o Enc(schema, value)
IsPrefixOf(a, b) == Len(a) <= Len(b) /\ SubSeq(b, 1, Len(a)) = a
RefinesDefinition == status = "done" => bufs = <<Final>>
SinkIsPrefix == IsPrefixOf(bufs[1], Final) /\ IsPrefixOf(sink0, bufs[1])
StagingIsBalanced == status = "done" => (Len(bufs) = 1 /\ counts = <<>>)
FailureIsClean == status = "failed" => (todo = <<>> /\ Len(bufs) = 1 /\ counts = <<>> /\ nwrites = failAt)
AppendOnly == [][IsPrefixOf(bufs[1], bufs'[1])]_vars
Terminates == <>(status # "run")
=============================================================================
