------------------------------- MODULE Bits -------------------------------
(***************************************************************************)
(* Fixed-width two's-complement bit vectors.                               *)
(*                                                                         *)
(* TLC integers are 32-bit, Kafka's are up to 64-bit (70 for varlongs), so *)
(* every integer that matters is a W-element sequence of 0/1, least        *)
(* significant bit first, two's complement (index 1 = bit 0).  Everything  *)
(* about byte order, width, zig-zag and 7-bit grouping is defined here and *)
(* in KafkaPrim - the Python side only ever produces the bit list          *)
(* [(v >> i) & 1 for i in range(W)], which is a change of notation.        *)
(***************************************************************************)
EXTENDS Integers, Sequences, FiniteSets

W == 72                       \* enough for svarlong 2^69 / uvarlong 2^70

BitVec == [1..W -> {0, 1}]

\* ---- native TLC integers (|n| < 2^31) to bit vectors and back ----------
NatBits(n) ==                 \* 0 <= n < 2^31
  [i \in 1..W |-> IF i <= 31 THEN (n \div (2^(i-1))) % 2 ELSE 0]

IntBits(n) ==
  IF n >= 0 THEN NatBits(n)
  ELSE LET m == NatBits((-n) - 1) IN [i \in 1..W |-> 1 - m[i]]

Sign(b) == b[W]

\* b is representable as a signed / unsigned integer of w bits
FitsS(b, w) == \A i \in w..W : b[i] = b[W]
FitsU(b, w) == \A i \in (w+1)..W : b[i] = 0

\* value of the low 31 bits as a natural
Low31(b) ==
  LET RECURSIVE acc(_)
      acc(i) == IF i = 0 THEN 0 ELSE b[i] * (2^(i-1)) + acc(i-1)
  IN acc(31)

\* back to a native integer; only meaningful when FitsS(b, 32)
BitsToInt(b) == IF b[W] = 0 THEN Low31(b) ELSE -(Low31([i \in 1..W |-> 1 - b[i]])) - 1

\* ---- bitwise / arithmetic operators on vectors -------------------------
\* TLC evaluates [i \in S |-> e] lazily, element by element and again on every access;
\* nested vector expressions would be recomputed exponentially often.  SubSeq is
\* implemented in Java and materialises its argument once.
Force(f) == SubSeq(f, 1, W)

BNot(b) == Force([i \in 1..W |-> 1 - b[i]])
BXor(a, b) == Force([i \in 1..W |-> (a[i] + b[i]) % 2])
Shl1(b) == Force([i \in 1..W |-> IF i = 1 THEN 0 ELSE b[i-1]])
\* arithmetic shift right by one
Sar1(b) == [i \in 1..W |-> IF i = W THEN b[W] ELSE b[i+1]]
\* all bits equal to the sign (this is v >> (w-1) for any w-bit v)
SignFill(b) == [i \in 1..W |-> b[W]]
\* keep the low w bits
Trunc(b, w) == [i \in 1..W |-> IF i <= w THEN b[i] ELSE 0]
\* sign-extend from bit w
SExt(b, w) == [i \in 1..W |-> IF i <= w THEN b[i] ELSE b[w]]

\* ripple-carry addition
BAdd(a, b) ==
  LET RECURSIVE carry(_)
      carry(i) == IF i = 1 THEN 0
                  ELSE LET c == carry(i-1) IN (a[i-1] + b[i-1] + c) \div 2
  IN Force([i \in 1..W |-> (a[i] + b[i] + carry(i)) % 2])

One == NatBits(1)
Zero == NatBits(0)
BNeg(b) == BAdd(BNot(b), One)

\* signed comparison a <= b
BLeq(a, b) ==
  IF a[W] # b[W] THEN a[W] = 1
  ELSE LET RECURSIVE le(_)
           le(i) == IF i = 0 THEN TRUE
                    ELSE IF a[i] # b[i] THEN a[i] < b[i] ELSE le(i-1)
       IN le(W-1)

\* index (1-based) of the highest set bit, 0 if none
TopBit(b) ==
  LET RECURSIVE top(_)
      top(i) == IF i = 0 THEN 0 ELSE IF b[i] = 1 THEN i ELSE top(i-1)
  IN top(W)

\* the byte whose least significant bit is bit `off` (0-based) of b
ByteOf(b, off) ==
    b[off+1] + 2*b[off+2] + 4*b[off+3] + 8*b[off+4]
  + 16*b[off+5] + 32*b[off+6] + 64*b[off+7] + 128*b[off+8]

\* seven bits starting at bit `off` (0-based)
Group7(b, off) ==
  LET g(i) == IF off + i <= W THEN b[off+i] ELSE 0
  IN g(1) + 2*g(2) + 4*g(3) + 8*g(4) + 16*g(5) + 32*g(6) + 64*g(7)

\* concatenation of a sequence of sequences by balanced divide and conquer: recursion depth
\* log n and O(n log n) copying (SequencesExt!FlattenSeq recurses once per element and
\* overflows TLC's stack on a few thousand elements)
RECURSIVE FlattenRange(_, _, _)
FlattenRange(seqs, lo, hi) ==
  IF lo > hi THEN <<>>
  ELSE IF lo = hi THEN seqs[lo]
  ELSE LET mid == (lo + hi) \div 2 IN FlattenRange(seqs, lo, mid) \o FlattenRange(seqs, mid + 1, hi)
Flatten(seqs) == FlattenRange(seqs, 1, Len(seqs))

\* bit k (0-based) of a byte
BitOfByte(x, k) == (x \div (2^k)) % 2
=============================================================================
