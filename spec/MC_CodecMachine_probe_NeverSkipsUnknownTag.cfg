SPECIFICATION Spec
CONSTANTS
  MaxLen = 4
  MaxFields = 1
  Rich = FALSE
INVARIANT NeverSkipsUnknownTag
CHECK_DEADLOCK FALSE
