---------------------------- MODULE ClassChurn ----------------------------
(***************************************************************************)
(* C19, classes that come and go.                                          *)
(*                                                                         *)
(* Registry.tla takes the set of entity classes as fixed.  A program can   *)
(* also define classes at run time, fail to get a codec for one (the       *)
(* description is inconsistent: SchemaError part-way through the factory   *)
(* body), drop it, have it collected, and define another class whose       *)
(* annotation objects (tuple[X, ...], X | None) are allocated at the       *)
(* addresses just freed.  The design derives everything a codec does from  *)
(* the class DESCRIPTION each time the factory body runs; what is kept     *)
(* between calls (functools.cache) is keyed by the class object and keeps  *)
(* it alive, so an address is never reused while something is remembered   *)
(* under it.                                                               *)
(*                                                                         *)
(* The model: objects live at addresses; a factory body looks at the       *)
(* object at an address (Look) and either fails afterwards (nothing        *)
(* retained) or succeeds (the codec pins the object); unpinned objects can *)
(* be collected and their address given to a new object of any             *)
(* description.                                                            *)
(*   Memo = "none"  the design                                             *)
(*   Memo = "weak"  a memo whose entry dies with the object - allowed      *)
(*   Memo = "id"    a memo keyed by address that outlives the object: TLC  *)
(*                  must find the counterexample (fail, collect, reuse)    *)
(* The code side of this model is the `churn` operation of                 *)
(* harness/sched.py: Define(dying) ; Look..fail ; Collect ; Define(fresh) ; *)
(* Look..ok ; use - judged by CodecTrace against F(description, value).    *)
(***************************************************************************)
EXTENDS Naturals, FiniteSets, TLC

CONSTANTS Addrs, Descs, Memo, MaxSteps

VARIABLES live,     \* live[a]: description of the object at address a, or "free"
          pinned,   \* pinned[a]: a cached codec keeps the object alive
          memo,     \* memo[a]: what a memo keyed by address remembers ("none" when nothing)
          used,     \* used[a]: what the factory body in progress took the object at a to be
          built,    \* successful builds: [desc |-> actual description, as |-> what it was taken to be]
          steps
vars == <<live, pinned, memo, used, built, steps>>

Init == /\ live = [a \in Addrs |-> "free"] /\ pinned = [a \in Addrs |-> FALSE]
        /\ memo = [a \in Addrs |-> "none"] /\ used = [a \in Addrs |-> "none"]
        /\ built = {} /\ steps = 0

Tick == steps < MaxSteps /\ steps' = steps + 1

\* the allocator hands out any free address
Define(a, d) == /\ Tick /\ live[a] = "free"
                /\ live' = [live EXCEPT ![a] = d]
                /\ UNCHANGED <<pinned, memo, used, built>>

\* a factory body classifies the object at address a
Look(a) == /\ Tick /\ live[a] # "free" /\ used[a] = "none"
           /\ LET c == IF Memo = "none" \/ memo[a] = "none" THEN live[a] ELSE memo[a] IN
              /\ used' = [used EXCEPT ![a] = c]
              /\ memo' = IF Memo = "none" THEN memo ELSE [memo EXCEPT ![a] = c]
           /\ UNCHANGED <<live, pinned, built>>

\* ... and then fails on a later field: nothing is retained by the cache
FailBuild(a) == /\ Tick /\ used[a] # "none"
                /\ used' = [used EXCEPT ![a] = "none"]
                /\ UNCHANGED <<live, pinned, memo, built>>

\* ... or succeeds: the cached codec references the class, the object stays
FinishBuild(a) == /\ Tick /\ used[a] # "none"
                  /\ built' = built \cup {[desc |-> live[a], as |-> used[a]]}
                  /\ pinned' = [pinned EXCEPT ![a] = TRUE]
                  /\ used' = [used EXCEPT ![a] = "none"]
                  /\ UNCHANGED <<live, memo>>

\* garbage collection of an object nothing refers to
Collect(a) == /\ Tick /\ live[a] # "free" /\ ~pinned[a] /\ used[a] = "none"
              /\ live' = [live EXCEPT ![a] = "free"]
              /\ memo' = IF Memo = "weak" THEN [memo EXCEPT ![a] = "none"] ELSE memo
              /\ UNCHANGED <<pinned, used, built>>

\* cache_clear(): codecs are dropped, their classes become collectable
ClearCache == /\ Tick /\ pinned' = [a \in Addrs |-> FALSE]
              /\ UNCHANGED <<live, memo, used, built>>

Next == \/ \E a \in Addrs : \/ \E d \in Descs : Define(a, d)
                            \/ Look(a) \/ FailBuild(a) \/ FinishBuild(a) \/ Collect(a)
        \/ ClearCache

Spec == Init /\ [][Next]_vars

\* every codec is built from the description of the class it is for
ClassifiedByDescription == \A b \in built : b.as = b.desc
\* nothing is remembered under the address of an object that no longer exists
NoMemoOfTheDead == Memo # "id" => \A a \in Addrs : live[a] = "free" => memo[a] = "none"
=============================================================================
