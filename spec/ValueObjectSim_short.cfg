SPECIFICATION SimSpec
CONSTANTS
  MaxObjs = 3
  Vals = {1, 2}
  MaxNew = 2
CONSTRAINT Short
INVARIANT ExportShort
CHECK_DEADLOCK FALSE
