SPECIFICATION SimSpec
CONSTANTS
  MaxObjs = 3
  Vals = {1, 2}
  MaxNew = 2
CONSTRAINT Short
INVARIANT ExportShort
INVARIANT ExportUsed
CHECK_DEADLOCK FALSE
