----------------------------- MODULE CodecTrace -----------------------------
(***************************************************************************)
(* Trace validation of kio's encoder and decoder against KafkaCodec.       *)
(*                                                                         *)
(* The harness records, per case, the sequence of write(chunk) calls the   *)
(* encoder issued on an instrumented sink and the sequence of read(n)      *)
(* calls the decoder issued on an instrumented source (its only two        *)
(* linearisation points), plus the outcome.  One TLC step consumes one     *)
(* event and evaluates the invariant of the codec machine at that step:    *)
(*   w : the sink only grows and stays a prefix of the prescribed bytes    *)
(*   r : sizes are non-negative, exact, and stay inside the message        *)
(* and at return: sink = Enc(schema, value); position = end of message;    *)
(* decoded value = the value on the wire.                                  *)
(*                                                                         *)
(* Case modes: "wr" encode an instance then decode kio's own output        *)
(* (C01/C02); "rw" decode bytes produced by the specification for a        *)
(* variant, then re-encode (C03/C05); "w1" / "r1" a single encode / decode *)
(* call taken out of a history or thread schedule (C19, C07).              *)
(* Verdicts are total: exactly one line per case, naming every failed      *)
(* clause.                                                                 *)
(***************************************************************************)
EXTENDS TraceIO, Json, IOUtils, TLCExt

Data == JsonDeserialize(IOEnv.KIO_TRACE_FILE)
Schemas == Data.schemas
Cases == Data.cases
N == Len(Cases)

VARIABLES ci,      \* index of the case being validated
          phase,   \* "load" | "w" | "r" | "verdict" | "done"
          l,       \* next event of the current phase
          exp,     \* bytes the encoder must produce in this phase
          wpos,    \* bytes written so far
          msglen,  \* length of the message the decoder is reading
          rpos,    \* bytes consumed so far
          fails    \* names of the clauses that failed for this case
vars == <<ci, phase, l, exp, wpos, msglen, rpos, fails>>

C == Cases[ci]
S == Schemas[C.sid]
Value == ExpandV(C.value)        \* the abstract value of the current case

Init == /\ ci = 1 /\ phase = "load" /\ l = 1 /\ exp = <<>> /\ wpos = 0
        /\ msglen = 0 /\ rpos = 0 /\ fails = {}

Load ==
  /\ phase = "load"
  /\ IF ci > N THEN /\ phase' = "done"
                    /\ UNCHANGED <<ci, l, exp, wpos, msglen, rpos, fails>>
     ELSE IF C.mode \in {"wr", "w1"} THEN
          /\ exp' = Enc(S, Value)
          /\ phase' = "w" /\ l' = 1 /\ wpos' = 0 /\ rpos' = 0 /\ msglen' = 0
          /\ fails' = IF WellTyped(S, Value) THEN {} ELSE {"harness_value_not_well_typed"}
          /\ UNCHANGED ci
     ELSE \* "rw"
          LET e == EncStructV(S, Value, C.var) IN
          /\ exp' = e
          /\ phase' = "r" /\ l' = 1 /\ wpos' = 0 /\ rpos' = 0 /\ msglen' = Len(e)
          /\ fails' = (IF Bytes(C.input) = e THEN {} ELSE {"harness_input_mismatch"})
                      \cup (IF WellTyped(S, Value) THEN {} ELSE {"harness_value_not_well_typed"})
          /\ UNCHANGED ci

\* ---- encoder machine: one step per sink.write(chunk) --------------------
StepW ==
  /\ phase = "w" /\ l <= Len(C.wev)
  /\ LET e == C.wev[l] IN
     /\ l' = l + 1
     /\ IF e.op # "w" THEN
          /\ fails' = fails \cup {IF e.op = "other" THEN "sink_used_other_than_write"
                                  ELSE "sink_event_unknown"}
          /\ UNCHANGED wpos
        ELSE
          /\ wpos' = wpos + e.n
          /\ fails' = fails \cup
               (IF /\ wpos + e.n <= Len(exp)
                   /\ SubSeq(exp, wpos + 1, wpos + e.n) = Bytes(e.d)
                THEN {} ELSE {"write_diverges_from_wire_format"})
  /\ UNCHANGED <<ci, phase, exp, msglen, rpos>>

EndW ==
  /\ phase = "w" /\ l > Len(C.wev)
  /\ LET f == fails
            \cup (IF C.wout = "ok" THEN {} ELSE {"encoder_raised"})
            \cup (IF C.wout = "ok" /\ wpos # Len(exp) THEN {"encoder_output_incomplete"} ELSE {})
     IN /\ fails' = f
        /\ IF C.mode = "wr" THEN /\ phase' = "r" /\ l' = 1 /\ rpos' = 0 /\ msglen' = wpos
                            ELSE /\ phase' = "verdict" /\ UNCHANGED <<l, rpos, msglen>>
  /\ UNCHANGED <<ci, exp, wpos>>

\* ---- decoder machine: one step per source.read(n) ------------------------
StepR ==
  /\ phase = "r" /\ l <= Len(C.rev)
  /\ LET e == C.rev[l] IN
     /\ l' = l + 1
     /\ IF e.op # "r" THEN
          /\ fails' = fails \cup {IF e.op = "other" THEN "source_used_other_than_read"
                                  ELSE "source_event_unknown"}
          /\ UNCHANGED rpos
        ELSE
          /\ rpos' = rpos + e.got
          /\ fails' = fails
               \cup (IF e.n >= 0 THEN {} ELSE {"negative_read_size"})
               \cup (IF e.got = e.n THEN {} ELSE {"short_read_inside_message"})
               \cup (IF rpos + e.got <= msglen THEN {} ELSE {"read_past_message_end"})
  /\ UNCHANGED <<ci, phase, exp, wpos, msglen>>

EndR ==
  /\ phase = "r" /\ l > Len(C.rev)
  /\ LET f == fails
            \cup (IF C.rout = "ok" THEN {} ELSE {"decoder_raised"})
            \cup (IF C.rout = "ok" /\ rpos # msglen THEN {"inexact_consumption"} ELSE {})
            \cup (IF C.rout = "ok" /\ ExpandV(C.rval) # Value THEN {"decoded_value_differs"} ELSE {})
            \cup (IF C.rout = "ok" /\ ~C.req THEN {"decoded_instance_not_equal"} ELSE {})
     IN /\ fails' = f
        /\ IF C.mode = "rw" /\ C.rout = "ok"
           THEN /\ phase' = "w" /\ l' = 1 /\ wpos' = 0 /\ exp' = Enc(S, Value)
           ELSE /\ phase' = "verdict" /\ UNCHANGED <<l, wpos, exp>>
  /\ UNCHANGED <<ci, msglen, rpos>>

Verdict ==
  /\ phase = "verdict"
  /\ PrintT(ToJson([id |-> C.id, fails |-> fails]))
  /\ ci' = ci + 1 /\ phase' = "load" /\ fails' = {}
  /\ UNCHANGED <<l, exp, wpos, msglen, rpos>>

Next == Load \/ StepW \/ EndW \/ StepR \/ EndR \/ Verdict
Spec == Init /\ [][Next]_vars

\* the behaviour is a single line: every case reaches its verdict
AllJudged == TLCGet("stats").diameter >= N
=============================================================================
