---------------------------- MODULE MC_RecordBatch ----------------------------
(***************************************************************************)
(* Model checking of the record batch format over a bounded universe:      *)
(* the strict decoder recovers exactly what a new batch was built from     *)
(* (C17); batchLength and CRC coverage are as the format states; and every *)
(* single-bit flip from the CRC field to the end, a wrong magic byte and   *)
(* every truncation make the decoder fail (C18) - that CRC-32C detects all *)
(* single-bit errors is confirmed on the whole universe, not assumed.      *)
(***************************************************************************)
EXTENDS RecordBatch, TLC

CONSTANT MaxRecs, FlipStride, Small

VARIABLES st, k, c, T
vars == <<st, k, c, T>>

Offsets == IF Small THEN {IntV(5)} ELSE {IntV(0), IntV(5)}
Stamps == IF Small THEN {IntV(1001)} ELSE {IntV(1000), IntV(999), IntV(2001)}
Blobs == IF Small THEN {NullV, BlobV(<<7>>)} ELSE {NullV, BlobV(<<>>), BlobV(<<7>>)}
Rec == { [attrs |-> IntV(0), ts |-> t, offset |-> o, key |-> ky, value |-> v, headers |-> h] :
           t \in Stamps, o \in Offsets, ky \in (IF Small THEN {BlobV(<<1>>)} ELSE {NullV, BlobV(<<1>>)}), v \in Blobs,
           h \in {<<>>, << <<BlobV(<<104>>), NullV>> >>} }
Params == { [producer_id |-> IntV(-1), producer_epoch |-> pe, ple |-> IntV(0), base_seq |-> IntV(-1),
             attributes |-> IntV(0)] : pe \in {IntV(-1), IntV(7)} }
RecSeqs == { <<r>> : r \in Rec }
           \cup (IF MaxRecs >= 2 THEN { <<r, s>> : r \in {x \in Rec : x.headers = <<>>},
                                                   s \in {x \in Rec : x.value # NullV /\ x.headers # <<>>} } ELSE {})
Cases == SetToSeq({ [p |-> p, recs |-> rs] : p \in Params, rs \in RecSeqs })

\* stage "blk": case index chosen; stage "case": checked (spreads work over workers)
Init == st = "blk" /\ k \in 1..Len(Cases) /\ c = <<>> /\ T = TableSeq
Next == st = "blk" /\ st' = "case" /\ k' = k /\ c' = Cases[k] /\ T' = T
Spec == Init /\ [][Next]_vars

TT == [i \in 0..255 |-> T[i + 1]]
B == EncNew(TT, c.p, c.recs)
D == DecBatch(TT, B)

CheckValue == Crc32cT(TT, <<49, 50, 51, 52, 53, 54, 55, 56, 57>>) = <<58118, 37507>>   \* 0xE3069283

NewBatchRoundTrip == st = "case" =>
  /\ NewBatchDomain(c.p, c.recs)
  /\ D.ok /\ D.pos = Len(B)
  /\ D.batch.records = c.recs
  /\ D.batch.producer_id = c.p.producer_id /\ D.batch.producer_epoch = c.p.producer_epoch
  /\ D.batch.ple = c.p.ple /\ D.batch.base_seq = c.p.base_seq /\ D.batch.attributes = c.p.attributes
  /\ D.batch.base_offset = c.recs[1].offset
  /\ D.batch.batch_length = IntV(Len(B) - 12)
  /\ D.batch.base_ts = c.recs[1].ts
  /\ \A i \in 1..Len(c.recs) : BLeq(ValBits(c.recs[i].ts), ValBits(D.batch.max_ts))
  /\ \E i \in 1..Len(c.recs) : c.recs[i].ts = D.batch.max_ts
  /\ EncPrepared(D.batch) = B

CrcCoversAttributesToEnd == st = "case" =>
  CrcBytes(Crc32cT(TT, SubSeq(B, 22, Len(B)))) = SubSeq(B, 18, 21)

Flip(bs, byte, bit) == [bs EXCEPT ![byte] = IF (@ \div (2^bit)) % 2 = 1 THEN @ - 2^bit ELSE @ + 2^bit]

DamageIsDetected == st = "case" =>
  /\ \A byte \in 18..Len(B) : \A bit \in 0..7 :
       ((byte * 8 + bit) % FlipStride = 0) => ~DecBatch(TT, Flip(B, byte, bit)).ok
  /\ \A m \in {0, 1, 3, 255} : ~DecBatch(TT, [B EXCEPT ![17] = m]).ok
  /\ \A n \in 0..(Len(B) - 1) : (n % FlipStride = 0 \/ n > Len(B) - 4) => ~DecBatch(TT, SubSeq(B, 1, n)).ok
=============================================================================
