----------------------------- MODULE MC_SnakeCase -----------------------------
(***************************************************************************)
(* All strings over the character classes {Upper, lower, digit} up to a    *)
(* bounded length, with their specified snake-casing, for replay through   *)
(* codegen.case.to_snake_case (spec -> code).  Two representatives per     *)
(* class so that adjacent equal classes are distinguishable.               *)
(***************************************************************************)
EXTENDS SnakeCase, Json, TLC
CONSTANT MaxLen
Alphabet == {65, 81, 98, 122, 51}       \* A Q b z 3
RECURSIVE Strings(_)
Strings(n) == IF n = 0 THEN {<<>>} ELSE {Append(s, c) : s \in Strings(n - 1), c \in Alphabet}
All == UNION {Strings(n) : n \in 1..MaxLen}
VARIABLE s
Init == s \in {x \in All : IsUpper(x[1]) \/ IsLower(x[1])}
Next == UNCHANGED s
Spec == Init /\ [][Next]_s
\* structural lemmas of the rule
NoDoubleUnderscore == LET r == SnakeFrom(s, 1) IN \A i \in 1..(Len(r) - 1) : ~(r[i] = 95 /\ r[i+1] = 95)
NoLeadingOrTrailingUnderscore == LET r == SnakeFrom(s, 1) IN r[1] # 95 /\ r[Len(r)] # 95
LettersPreserved == SelectSeq(SnakeFrom(s, 1), LAMBDA c : c # 95) = [i \in 1..Len(s) |-> ToLower(s[i])]
Emit == PrintT(ToJson([s |-> s, snake |-> SnakeFrom(s, 1)]))
=============================================================================
