------------------------------ MODULE SnakeCase ------------------------------
(***************************************************************************)
(* kio's naming convention for fields and API packages: CamelCase to       *)
(* snake_case, as a state machine over character classes with a three-     *)
(* symbol window (previous, current, next).  A new word starts at `cur`    *)
(* when   lower -> Upper          (inSync -> in_sync)                      *)
(*        Upper Upper lower       (ISRReplicas -> isr_replicas)            *)
(*        digit Upper lower       (V3And -> v3_and)                        *)
(* and never at the first character.  A result that is a Python builtin    *)
(* name gets a trailing underscore (Type -> type_).  Characters are code   *)
(* points.                                                                 *)
(***************************************************************************)
EXTENDS Naturals, Sequences

IsUpper(c) == c >= 65 /\ c <= 90
IsLower(c) == c >= 97 /\ c <= 122
IsDigit(c) == c >= 48 /\ c <= 57
ToLower(c) == IF IsUpper(c) THEN c + 32 ELSE c

\* does a new word start at position i (2 <= i <= Len(s))?
Break(s, i) ==
  LET p == s[i-1] c == s[i] IN
  IF i = Len(s) THEN IsLower(p) /\ IsUpper(c)
  ELSE LET n == s[i+1] IN
       \/ (IsUpper(p) /\ IsUpper(c) /\ IsLower(n))
       \/ (IsLower(p) /\ IsUpper(c))
       \/ (IsDigit(p) /\ IsUpper(c) /\ IsLower(n))

RECURSIVE SnakeFrom(_, _)
SnakeFrom(s, i) ==
  IF i > Len(s) THEN <<>>
  ELSE (IF i > 1 /\ Break(s, i) THEN <<95>> ELSE <<>>) \o <<ToLower(s[i])>> \o SnakeFrom(s, i + 1)

\* the builtin names that can come out of a Kafka field name (dir(builtins), lower-case ones
\* relevant to identifiers); given as code point sequences by the user of this module
Snake(s, builtins) ==
  LET r == SnakeFrom(s, 1) IN IF r \in builtins THEN Append(r, 95) ELSE r
=============================================================================
