------------------------------- MODULE TraceIO -------------------------------
(***************************************************************************)
(* The JSON boundary between the harness and the trace specifications.     *)
(* Long byte strings cross run-length encoded (a change of notation only): *)
(* a byte string is [raw |-> bytes] or [rle |-> runs <<byte, count>>]; a   *)
(* long blob value is [rle |-> runs].  Everything is expanded before the specification     *)
(* proper sees it.                                                         *)
(***************************************************************************)
EXTENDS KafkaCodec

ExpandRuns(runs) ==
  Flatten([i \in 1..Len(runs) |-> [j \in 1..runs[i][2] |-> runs[i][1]]])

\* a byte string at the boundary: [raw |-> <<bytes>>] or, when it has few long runs,
\* [rle |-> <<<<byte, count>>, ...>>]
Bytes(x) == IF "raw" \in DOMAIN x THEN x.raw ELSE ExpandRuns(x.rle)

RECURSIVE ExpandV(_)
ExpandV(v) ==
  CASE K(v) = "rle" -> BlobV(ExpandRuns(v.rle))
    [] K(v) = "rec" -> RecV([i \in 1..Len(v.rec) |-> ExpandV(v.rec[i])])
    [] K(v) = "seq" -> SeqV([i \in 1..Len(v.seq) |-> ExpandV(v.seq[i])])
    [] OTHER -> v

\* bytes -> maximal runs (for printing long outputs compactly)
ToRuns(bs) ==
  LET step(acc, c) ==
        IF acc # <<>> /\ acc[Len(acc)][1] = c
        THEN [acc EXCEPT ![Len(acc)] = <<c, @[2] + 1>>]
        ELSE Append(acc, <<c, 1>>)
  IN FoldLeft(step, <<>>, bs)

\* for printing: raw when short, runs when long (long outputs of the samplers have few runs)
PrintBytes(bs) == IF Len(bs) <= 1500 THEN [raw |-> bs] ELSE [rle |-> ToRuns(bs)]
=============================================================================
