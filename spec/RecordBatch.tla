----------------------------- MODULE RecordBatch -----------------------------
(***************************************************************************)
(* The Kafka record batch format, magic 2 (KIP-98; kafka.apache.org        *)
(* documentation, section "Record Batch"), definitional.                    *)
(*                                                                         *)
(*   baseOffset int64 | batchLength int32 | partitionLeaderEpoch int32 |   *)
(*   magic int8 = 2 | crc uint32 | attributes int16 | lastOffsetDelta      *)
(*   int32 | baseTimestamp int64 | maxTimestamp int64 | producerId int64 | *)
(*   producerEpoch int16 | baseSequence int32 | recordCount int32 |        *)
(*   records                                                               *)
(* batchLength counts everything after itself; the CRC-32C covers exactly  *)
(* the bytes from attributes to the end.  A record is                      *)
(*   length varint | attributes int8 | timestampDelta varlong |            *)
(*   offsetDelta varint | key (varint length, -1 null) | value | header    *)
(*   count varint | headers (key, value as varint-length bytes)            *)
(* with zig-zag signed varints.                                            *)
(*                                                                         *)
(* A batch is a record [base_offset, batch_length, ple, crc, attributes,   *)
(* last_offset_delta, base_ts, max_ts, producer_id, producer_epoch,        *)
(* base_seq, records]; integers are values ([int]/[bits]); crc is a pair   *)
(* <<hi16, lo16>>; a record is [attrs, ts, offset, key, value, headers]    *)
(* with absolute millisecond timestamp and absolute offset.                *)
(***************************************************************************)
EXTENDS KafkaPrim, Crc32c

Sub(a, b) == BAdd(ValBits(a), BNeg(ValBits(b)))

VBytes(x) == IF IsNull(x) THEN SVar(IntBits(-1)) ELSE SVar(NatBits(Len(x.blob))) \o x.blob

EncRecord(r, baseTs, baseOff) ==
  LET hdrs == Flatten([i \in 1..Len(r.headers) |-> VBytes(r.headers[i][1]) \o VBytes(r.headers[i][2])])
      body == BE(ValBits(r.attrs), 1)
              \o SVarLong(Sub(r.ts, baseTs))
              \o SVar(Sub(r.offset, baseOff))
              \o VBytes(r.key) \o VBytes(r.value)
              \o SVar(NatBits(Len(r.headers))) \o hdrs
  IN SVar(NatBits(Len(body))) \o body

\* the checksummed part
Body(b) ==
     BE(ValBits(b.attributes), 2) \o BE(ValBits(b.last_offset_delta), 4)
  \o BE(ValBits(b.base_ts), 8) \o BE(ValBits(b.max_ts), 8)
  \o BE(ValBits(b.producer_id), 8) \o BE(ValBits(b.producer_epoch), 2)
  \o BE(ValBits(b.base_seq), 4) \o BE(NatBits(Len(b.records)), 4)
  \o Flatten([i \in 1..Len(b.records) |-> EncRecord(b.records[i], b.base_ts, b.base_offset)])

\* a batch written as it stands (kio: write_prepared_batch)
EncPrepared(b) ==
     BE(ValBits(b.base_offset), 8) \o BE(ValBits(b.batch_length), 4)
  \o BE(ValBits(b.ple), 4) \o <<2>> \o CrcBytes(b.crc) \o Body(b)

\* ---- a NEW batch: everything derived from the records (C17) ----------------
MaxTs(recs) ==
  LET RECURSIVE mx(_, _)
      mx(i, m) == IF i > Len(recs) THEN m
                  ELSE mx(i + 1, IF BLeq(ValBits(m), ValBits(recs[i].ts)) THEN recs[i].ts ELSE m)
  IN mx(2, recs[1].ts)

\* p = [producer_id, producer_epoch, ple, base_seq, attributes]; recs non-empty
DeriveNew(T, p, recs) ==
  LET pre == [base_offset |-> recs[1].offset, batch_length |-> IntV(0), ple |-> p.ple,
              crc |-> <<0, 0>>, attributes |-> p.attributes,
              last_offset_delta |-> Canon(Sub(recs[Len(recs)].offset, recs[1].offset)),
              base_ts |-> recs[1].ts, max_ts |-> MaxTs(recs),
              producer_id |-> p.producer_id, producer_epoch |-> p.producer_epoch,
              base_seq |-> p.base_seq, records |-> recs]
      body == Body(pre)
  IN [pre EXCEPT !.batch_length = Canon(NatBits(Len(body) + 9)), !.crc = Crc32cT(T, body)]

EncNew(T, p, recs) == EncPrepared(DeriveNew(T, p, recs))

\* a well-formed batch as a broker may hold it (e.g. after compaction: records removed, header kept):
\* h gives every header field but batch_length and crc, which the format derives
EncGiven(T, h, recs) ==
  LET pre == [base_offset |-> h.base_offset, batch_length |-> IntV(0), ple |-> h.ple, crc |-> <<0, 0>>,
              attributes |-> h.attributes, last_offset_delta |-> h.last_offset_delta,
              base_ts |-> h.base_ts, max_ts |-> h.max_ts, producer_id |-> h.producer_id,
              producer_epoch |-> h.producer_epoch, base_seq |-> h.base_seq, records |-> recs]
      body == Body(pre)
  IN EncPrepared([pre EXCEPT !.batch_length = Canon(NatBits(Len(body) + 9)), !.crc = Crc32cT(T, body)])

\* values a new batch can carry: deltas must fit their wire types
NewBatchDomain(p, recs) ==
  /\ Len(recs) >= 1
  /\ \A i \in 1..Len(recs) :
       /\ FitsS(Sub(recs[i].offset, recs[1].offset), 32)
       /\ FitsS(Sub(recs[i].ts, recs[1].ts), 64)
       /\ FitsS(ValBits(recs[i].ts), 64) /\ FitsS(ValBits(recs[i].offset), 64)
       /\ FitsS(ValBits(recs[i].attrs), 8)

\* ---- strict decoder ----------------------------------------------------------
DErr(e) == [ok |-> FALSE, err |-> e, batch |-> <<>>, pos |-> 0]

DecVBytes(bs, pos) ==      \* -> [ok, val, pos]
  LET h == DecUVarBits(bs, pos, MaxVarintBytes) IN
  IF ~h.ok THEN Err(h.err, h.pos)
  ELSE LET n == LenOfBits(UnZigZag(h.val)) IN
       IF n = -1 THEN Ok(NullV, h.pos)
       ELSE IF n < 0 THEN Err("value_error", h.pos)
       ELSE IF h.pos + n > Len(bs) THEN Err("underflow", Len(bs))
       ELSE Ok(BlobV(SubSeq(bs, h.pos + 1, h.pos + n)), h.pos + n)

SVarAt(bs, pos, maxb) ==
  LET h == DecUVarBits(bs, pos, maxb) IN
  IF ~h.ok THEN Err(h.err, h.pos) ELSE Ok(Canon(UnZigZag(h.val)), h.pos)

DecRecord(bs, pos, baseTs, baseOff) ==     \* -> [ok, err, val (record), pos]
  LET l == SVarAt(bs, pos, MaxVarintBytes) IN
  IF ~l.ok THEN l
  ELSE LET n == LenOfBits(ValBits(l.val)) end == l.pos + n IN
  IF n < 0 THEN Err("value_error", l.pos)
  ELSE IF end > Len(bs) THEN Err("underflow", Len(bs))
  ELSE LET rb == SubSeq(bs, 1, end)           \* the record may not read past its own end
           a == DecFixed(rb, l.pos, 1, TRUE) IN
  IF ~a.ok THEN a ELSE LET t == SVarAt(rb, a.pos, MaxVarlongBytes) IN
  IF ~t.ok THEN t ELSE LET o == SVarAt(rb, t.pos, MaxVarintBytes) IN
  IF ~o.ok THEN o ELSE LET k == DecVBytes(rb, o.pos) IN
  IF ~k.ok THEN k ELSE LET v == DecVBytes(rb, k.pos) IN
  IF ~v.ok THEN v ELSE LET c == SVarAt(rb, v.pos, MaxVarintBytes) IN
  IF ~c.ok THEN c ELSE
  LET nh == LenOfBits(ValBits(c.val))
      RECURSIVE hs(_, _, _)
      hs(j, p, acc) ==
        IF j = 0 THEN Ok(acc, p)
        ELSE LET hk == DecVBytes(rb, p) IN
             IF ~hk.ok THEN hk ELSE LET hv == DecVBytes(rb, hk.pos) IN
             IF ~hv.ok THEN hv ELSE hs(j - 1, hv.pos, Append(acc, <<hk.val, hv.val>>))
      H == IF nh < 0 THEN Err("value_error", c.pos) ELSE hs(nh, c.pos, <<>>) IN
  IF ~H.ok THEN H
  ELSE IF H.pos # end THEN Err("value_error", H.pos)
  ELSE Ok([attrs |-> a.val, ts |-> Canon(BAdd(ValBits(baseTs), ValBits(t.val))),
           offset |-> Canon(BAdd(ValBits(baseOff), ValBits(o.val))),
           key |-> k.val, value |-> v.val, headers |-> H.val], end)

DecBatch(T, bs) ==
  IF Len(bs) < 61 THEN DErr("underflow")
  ELSE
  LET F(pos, n) == DecFixed(bs, pos, n, TRUE).val
      bo == F(0, 8) bl == F(8, 4) ple == F(12, 4)
      blen == LenOfBits(ValBits(bl)) IN
  IF blen < 49 THEN DErr("value_error")
  ELSE IF 12 + blen > Len(bs) THEN DErr("underflow")
  ELSE IF bs[17] # 2 THEN DErr("bad_magic")
  ELSE
  LET end == 12 + blen
      body == SubSeq(bs, 22, end)
      crc == Crc32cT(T, body) IN
  IF CrcBytes(crc) # SubSeq(bs, 18, 21) THEN DErr("checksum")
  ELSE
  LET at == F(21, 2) lod == F(23, 4) bts == F(27, 8) mts == F(35, 8)
      pid == F(43, 8) pe == F(51, 2) bsq == F(53, 4)
      cnt == LenOfBits(ValBits(F(57, 4)))
      whole == SubSeq(bs, 1, end)
      RECURSIVE recs(_, _, _)
      recs(j, p, acc) ==
        IF j = 0 THEN Ok(acc, p)
        ELSE LET r == DecRecord(whole, p, bts, bo) IN
             IF ~r.ok THEN r ELSE recs(j - 1, r.pos, Append(acc, r.val))
      R == IF cnt < 0 THEN Err("value_error", 61) ELSE recs(cnt, 61, <<>>) IN
  IF ~R.ok THEN DErr(R.err)
  ELSE IF R.pos # end THEN DErr("value_error")
  ELSE [ok |-> TRUE, err |-> "", pos |-> end,
        batch |-> [base_offset |-> bo, batch_length |-> bl, ple |-> ple, crc |-> crc,
                   attributes |-> at, last_offset_delta |-> lod, base_ts |-> bts, max_ts |-> mts,
                   producer_id |-> pid, producer_epoch |-> pe, base_seq |-> bsq, records |-> R.val]]
=============================================================================
