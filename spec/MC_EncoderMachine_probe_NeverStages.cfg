SPECIFICATION Spec
CONSTANTS
  MaxFields = 1
  Rich = FALSE
  MaxFail = 4
INVARIANT NeverStages
CHECK_DEADLOCK FALSE
