---------------------------- MODULE CodegenExpect ----------------------------
(***************************************************************************)
(* Pass 1 for C16 / C04: for every definition of the input file and every  *)
(* version it declares, print the specified module content                 *)
(* (Codegen.ClassesAt) and the specified package name.  The harness runs   *)
(* the real parser and generators on the same definitions and compares     *)
(* class by class, field by field; instances of the generated classes are  *)
(* then encoded by kio and validated by CodecTrace against the SPECIFIED   *)
(* schema.                                                                 *)
(***************************************************************************)
EXTENDS Codegen, Json, IOUtils, TLCExt

Data == JsonDeserialize(IOEnv.KIO_TRACE_FILE)
Defs == Data.defs
Builtins == {Data.builtins[i] : i \in 1..Len(Data.builtins)}
N == Len(Defs)

VARIABLES di, v
Init == di = 1 /\ v = IF N >= 1 THEN Defs[1].valid[1] ELSE 0
Next ==
  /\ di <= N
  /\ LET d == Defs[di] IN
     /\ PrintT(ToJson([id |-> d.id, v |-> v, pkg |-> ApiPackage(d, Builtins),
                       classes |-> ClassesAt(d, v, Builtins)]))
     /\ IF v < d.valid[2] THEN v' = v + 1 /\ di' = di
        ELSE di' = di + 1 /\ v' = IF di + 1 <= N THEN Defs[di + 1].valid[1] ELSE 0
Spec == Init /\ [][Next]_<<di, v>>
Complete == TLCGet("stats").diameter >= N
=============================================================================
