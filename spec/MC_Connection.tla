---- MODULE MC_Connection ----
EXTENDS Connection
SizesDef == <<<<2, 1>>, <<0, 3>>, <<1, 0>>>>
====
