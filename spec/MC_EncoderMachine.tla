--------------------------- MODULE MC_EncoderMachine ---------------------------
(* The encoder machine over the bounded shape universe, with every failure position of the sink. *)
EXTENDS EncoderMachine, ShapeUniverse
CONSTANT MaxFail
Init == \E s \in AllSchemas : \E v \in ValuesOf(s) : \E pre \in {<<>>, <<9, 9>>} : \E kf \in 0..MaxFail :
          Start(s, v, pre, kf)
Spec == Init /\ [][Next]_vars /\ WF_vars(Next)
\* non-vacuity probes (must be violated)
NeverStages == Len(bufs) <= 2
NeverFails == status # "failed"
=============================================================================
