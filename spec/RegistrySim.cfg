SPECIFICATION SimSpec
CONSTANTS
  Threads = {1, 2}
  MaxOps = 3
  Scratch = "private"
  Evicting = TRUE
  Vals = {1, 2}
  StartKinds = {"w", "r"}
  StartClasses = {"A", "B", "H"}
INVARIANT ResultIsFunction
INVARIANT Export
CHECK_DEADLOCK FALSE
