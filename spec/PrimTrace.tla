------------------------------ MODULE PrimTrace ------------------------------
(***************************************************************************)
(* Table validation of kio's 66 public primitive readers and writers       *)
(* (C11) and of its primitive value types (C12) against KafkaPrim.         *)
(*                                                                         *)
(* A row is one call of one public function, observed at its return or     *)
(* raise: the argument, the bytes written (and how many were written       *)
(* before a raise), or the bytes offered, the value returned and how many  *)
(* bytes were consumed.  WEnc / WDom give the specified bytes and domain   *)
(* of every writer, RDec the specified result of every reader; a function  *)
(* name this module does not know is an error (TLC stops), so a new public *)
(* primitive cannot go unchecked.                                          *)
(***************************************************************************)
EXTENDS TraceIO, Json, IOUtils, TLCExt

Data == JsonDeserialize(IOEnv.KIO_TRACE_FILE)
Rows == Data.rows
N == Len(Rows)

\* ---- writers ---------------------------------------------------------------
\* a duration is <<whole milliseconds (floor) as a value, remainder in microseconds>>
MsCandidates(x) ==
  LET q == ValBits(x.td[1]) r == x.td[2] IN
  IF r = 0 THEN {q}
  ELSE IF r < 500 THEN {q}
  ELSE IF r > 500 THEN {BAdd(q, One)}
  ELSE {q, BAdd(q, One)}            \* a tie may round either way

WEncSet(fn, x) ==     \* the set of acceptable outputs (a singleton except for duration ties)
  CASE fn = "write_boolean" -> {EncBool(x)}
    [] fn \in {"write_int8", "write_uint8"} -> {BE(ValBits(x), 1)}
    [] fn \in {"write_int16", "write_uint16", "write_error_code"} -> {BE(ValBits(x), 2)}
    [] fn \in {"write_int32", "write_uint32", "write_legacy_array_length"} -> {BE(ValBits(x), 4)}
    [] fn \in {"write_int64", "write_uint64"} -> {BE(ValBits(x), 8)}
    [] fn \in {"write_unsigned_varint", "write_unsigned_varlong"} -> {UVar(ValBits(x))}
    [] fn = "write_signed_varint" -> {SVar(ValBits(x))}
    [] fn = "write_signed_varlong" -> {SVarLong(ValBits(x))}
    [] fn = "write_float64" -> {F64Bytes(x.f64)}
    [] fn \in {"write_nullable_compact_string", "write_compact_string"} -> {CompactBlob(x)}
    [] fn \in {"write_nullable_legacy_string", "write_legacy_string"} -> {LegacyString(x)}
    [] fn \in {"write_nullable_legacy_bytes", "write_legacy_bytes"} -> {LegacyBytes(x)}
    [] fn = "write_empty_tagged_fields" -> {<<0>>}
    [] fn = "write_compact_array_length" -> {UVar(BAdd(ValBits(x), One))}
    [] fn = "write_uuid" -> {EncUuid(x)}
    \* (items laid out by index arithmetic, not FlattenSeq: arrays of 70000 elements are in the table)
    [] fn = "compact_array_writer" ->     \* instantiated with write_int8
         {IF IsNull(x) THEN CompactArrayLen(-1)
          ELSE CompactArrayLen(Len(x.seq)) \o [j \in 1..Len(x.seq) |-> BE(ValBits(x.seq[j]), 1)[1]]}
    [] fn = "legacy_array_writer" ->      \* instantiated with write_int16
         {IF IsNull(x) THEN LegacyArrayLen(-1)
          ELSE LegacyArrayLen(Len(x.seq))
               \o [j \in 1..(2 * Len(x.seq)) |-> BE(ValBits(x.seq[(j + 1) \div 2]), 2)[((j - 1) % 2) + 1]]}
    [] fn = "write_tagged_field" ->       \* x = <<tag, compact string payload>>
         {LET p == CompactBlob(x.seq[2]) IN UVar(ValBits(x.seq[1])) \o UVarNat(Len(p)) \o p}
    [] fn = "write_timedelta_i32" -> {BE(q, 4) : q \in MsCandidates(x)}
    [] fn = "write_timedelta_i64" -> {BE(q, 8) : q \in MsCandidates(x)}
    [] fn \in {"write_datetime_i64", "write_nullable_datetime_i64"} ->
         {IF IsNull(x) THEN BE(IntBits(-1), 8) ELSE BE(ValBits(x), 8)}

IntDom(fn) ==      \* <<signed?, bits>> of the integer writers
  CASE fn = "write_int8" -> <<TRUE, 8>> [] fn = "write_int16" -> <<TRUE, 16>>
    [] fn = "write_int32" -> <<TRUE, 32>> [] fn = "write_int64" -> <<TRUE, 64>>
    [] fn = "write_uint8" -> <<FALSE, 8>> [] fn = "write_uint16" -> <<FALSE, 16>>
    [] fn = "write_uint32" -> <<FALSE, 32>> [] fn = "write_uint64" -> <<FALSE, 64>>
    [] fn = "write_legacy_array_length" -> <<TRUE, 32>>
    [] fn = "write_unsigned_varint" -> <<FALSE, 35>> [] fn = "write_unsigned_varlong" -> <<FALSE, 70>>
    [] fn = "write_signed_varint" -> <<TRUE, 32>> [] fn = "write_signed_varlong" -> <<TRUE, 64>>

IntWriters == {"write_int8", "write_int16", "write_int32", "write_int64", "write_uint8",
               "write_uint16", "write_uint32", "write_uint64", "write_legacy_array_length",
               "write_unsigned_varint", "write_unsigned_varlong", "write_signed_varint",
               "write_signed_varlong"}
MustRaiseOutside == {"write_int8", "write_int16", "write_int32", "write_int64", "write_uint8",
                     "write_uint16", "write_uint32", "write_uint64", "write_legacy_array_length",
                     "write_legacy_string", "write_nullable_legacy_string"}

WDom(fn, x) ==
  IF fn \in IntWriters THEN
    LET d == IntDom(fn) IN IF d[1] THEN FitsS(ValBits(x), d[2]) ELSE FitsU(ValBits(x), d[2])
  ELSE IF fn \in {"write_legacy_string", "write_nullable_legacy_string"} THEN
    IsNull(x) \/ Len(x.blob) <= MaxStringLen
  ELSE IF fn = "write_timedelta_i32" THEN \A q \in MsCandidates(x) : FitsS(q, 32)
  ELSE IF fn = "write_timedelta_i64" THEN \A q \in MsCandidates(x) : FitsS(q, 64)
  ELSE TRUE

WFails(r) ==
  LET x == ExpandV(r.x) b == Bytes(r.b) IN
  IF WDom(r.fn, x) THEN
       (IF r.out = "ok" THEN {} ELSE {"writer_raised_inside_domain"})
    \cup (IF r.out = "ok" /\ b \notin WEncSet(r.fn, x) THEN {"writer_bytes_differ"} ELSE {})
  ELSE IF r.fn \in MustRaiseOutside THEN
       (IF r.out = "ok" THEN {"writer_accepted_value_outside_domain"} ELSE {})
    \cup (IF r.out # "ok" /\ Len(b) # 0 THEN {"bytes_written_before_raise"} ELSE {})
  ELSE {}

\* ---- readers ---------------------------------------------------------------
Uv(bs, maxb) == LET h == DecUVarBits(bs, 0, maxb) IN
                IF h.ok THEN Ok(Canon(h.val), h.pos) ELSE Err(h.err, h.pos)
Sv(bs, maxb) == LET h == DecUVarBits(bs, 0, maxb) IN
                IF h.ok THEN Ok(Canon(UnZigZag(h.val)), h.pos) ELSE Err(h.err, h.pos)

RDec(fn, bs) ==
  CASE fn = "read_boolean" -> DecPrim("bool", FALSE, FALSE, bs, 0)
    [] fn = "read_int8" -> DecFixed(bs, 0, 1, TRUE) [] fn = "read_int16" -> DecFixed(bs, 0, 2, TRUE)
    [] fn \in {"read_int32", "read_legacy_array_length"} -> DecFixed(bs, 0, 4, TRUE)
    [] fn = "read_int64" -> DecFixed(bs, 0, 8, TRUE)
    [] fn = "read_uint8" -> DecFixed(bs, 0, 1, FALSE) [] fn = "read_uint16" -> DecFixed(bs, 0, 2, FALSE)
    [] fn = "read_uint32" -> DecFixed(bs, 0, 4, FALSE) [] fn = "read_uint64" -> DecFixed(bs, 0, 8, FALSE)
    [] fn = "read_unsigned_varint" -> Uv(bs, MaxVarintBytes)
    [] fn = "read_unsigned_varlong" -> Uv(bs, MaxVarlongBytes)
    [] fn = "read_signed_varint" -> Sv(bs, MaxVarintBytes)
    [] fn = "read_signed_varlong" -> Sv(bs, MaxVarlongBytes)
    [] fn = "read_float64" -> DecPrim("float64", FALSE, FALSE, bs, 0)
    [] fn = "read_compact_string_as_bytes" -> DecCompactBlob(bs, 0, FALSE, FALSE)
    [] fn = "read_compact_string_as_bytes_nullable" -> DecCompactBlob(bs, 0, TRUE, FALSE)
    [] fn = "read_compact_string" -> DecCompactBlob(bs, 0, FALSE, TRUE)
    [] fn = "read_compact_string_nullable" -> DecCompactBlob(bs, 0, TRUE, TRUE)
    [] fn = "read_legacy_bytes" -> DecLegacyBytes(bs, 0, FALSE)
    [] fn = "read_nullable_legacy_bytes" -> DecLegacyBytes(bs, 0, TRUE)
    [] fn = "read_legacy_string" -> DecLegacyString(bs, 0, FALSE)
    [] fn = "read_nullable_legacy_string" -> DecLegacyString(bs, 0, TRUE)
    [] fn = "read_compact_array_length" ->
         LET h == DecUVarBits(bs, 0, MaxVarintBytes) IN
         IF h.ok THEN Ok(Canon(BAdd(h.val, IntBits(-1))), h.pos) ELSE Err(h.err, h.pos)
    [] fn = "read_uuid" -> DecPrim("uuid", FALSE, TRUE, bs, 0)
    [] fn = "read_error_code" -> DecPrim("error_code", FALSE, FALSE, bs, 0)
    [] fn = "read_timedelta_i32" -> DecFixed(bs, 0, 4, TRUE)
    [] fn = "read_timedelta_i64" -> DecFixed(bs, 0, 8, TRUE)
    [] fn \in {"read_datetime_i64", "tz_aware_from_i64"} -> DecPrim("datetime_i64", FALSE, FALSE, bs, 0)
    [] fn = "read_nullable_datetime_i64" -> DecPrim("datetime_i64", FALSE, TRUE, bs, 0)
    [] fn = "read_exact" ->       \* first byte = number of bytes to read from the rest
         IF Len(bs) = 0 THEN Err("underflow", 0)
         ELSE IF bs[1] > Len(bs) - 1 THEN Err("underflow", Len(bs))
         ELSE Ok(BlobV(SubSeq(bs, 2, 1 + bs[1])), 1 + bs[1])
    [] fn = "compact_array_reader" ->     \* instantiated with read_int8
         DecField([name |-> "T", flex |-> TRUE, fields |-> <<>>],
                  [name |-> "f", kind |-> "prim", arr |-> TRUE, ktype |-> "int8", nul |-> TRUE,
                   inul |-> FALSE, tag |-> -1, hasd |-> FALSE, dflt |-> NullV,
                   sub |-> [name |-> "", flex |-> FALSE, fields |-> <<>>]], bs, 0, FALSE)
    [] fn = "legacy_array_reader" ->      \* instantiated with read_int16
         DecField([name |-> "T", flex |-> FALSE, fields |-> <<>>],
                  [name |-> "f", kind |-> "prim", arr |-> TRUE, ktype |-> "int16", nul |-> TRUE,
                   inul |-> FALSE, tag |-> -1, hasd |-> FALSE, dflt |-> NullV,
                   sub |-> [name |-> "", flex |-> FALSE, fields |-> <<>>]], bs, 0, FALSE)

\* Python-unrepresentable but specified values: the reader may refuse them (C10's business)
Unrepresentable(fn) == fn \in {"read_timedelta_i64", "read_datetime_i64", "read_nullable_datetime_i64",
                               "tz_aware_from_i64"}

RFails(r) ==
  LET bs == Bytes(r.b) d == RDec(r.fn, bs) IN
  IF d.ok THEN
    IF r.out = "ok" THEN
         (IF ExpandV(r.v) = d.val THEN {} ELSE {"reader_value_differs"})
      \cup (IF r.n = d.pos THEN {} ELSE {"reader_consumed_differs"})
    ELSE IF Unrepresentable(r.fn) /\ r.out \in {"overflow", "value_error", "out_of_bound"} THEN {}
    ELSE {"reader_rejected_valid_encoding"}
  ELSE
    IF r.out = "ok" THEN
      \* named leniencies of kio's readers (not demanded, not forbidden by C11):
      \* the array readers return None for a null array whether or not null is expected, and an
      \* empty array for a negative length other than -1
      IF d.err \in {"unexpected_null", "value_error"} /\ r.fn \in {"compact_array_reader", "legacy_array_reader"}
      THEN {} ELSE {"reader_accepted_invalid_encoding"}
    ELSE IF d.err = "underflow" THEN (IF r.out = "underflow" THEN {} ELSE {"reader_wrong_error_on_short_input"})
    ELSE IF d.err = "unexpected_null" THEN (IF r.out = "unexpected_null" THEN {} ELSE {"reader_wrong_error_on_null"})
    ELSE (IF r.out \in {"value_error", "out_of_bound", "overflow"} THEN {} ELSE {"reader_wrong_error_class"})

\* ---- value types (C12) -----------------------------------------------------
VARIABLES i, bad,
          tdmin, tdmax,   \* limits of the i64 duration type, computed once in Init
          dtmax           \* last representable millisecond timestamp, computed once in Init

\* candidate c: [int |-> n] / [bits |-> b] integers (bool counts as its integer value),
\* [flt |-> "finite"|"inf"|"nan"], [other |-> typename],
\* [td |-> <<ms floor value, remainder us>>], [dt |-> <<aware (0/1), ms floor value, remainder us>>]
TypeRange(t) ==    \* <<signed, bits>>
  CASE t = "i8" -> <<TRUE, 8>> [] t = "i16" -> <<TRUE, 16>> [] t = "i32" -> <<TRUE, 32>>
    [] t = "i64" -> <<TRUE, 64>> [] t = "u8" -> <<FALSE, 8>> [] t = "u16" -> <<FALSE, 16>>
    [] t = "u32" -> <<FALSE, 32>> [] t = "u64" -> <<FALSE, 64>> [] t = "uvarint" -> <<FALSE, 35>>
    [] t = "uvarlong" -> <<FALSE, 70>> [] t = "svarint" -> <<TRUE, 35>> [] t = "svarlong" -> <<TRUE, 70>>
IntTypes == {"i8", "i16", "i32", "i64", "u8", "u16", "u32", "u64", "uvarint", "uvarlong",
             "svarint", "svarlong"}

\* timedelta.min = -999999999 days; i64Timedelta max = timedelta.max - 1 day
RECURSIVE ShlN(_, _)
ShlN(x, k) == IF k = 0 THEN x ELSE ShlN(Shl1(x), k - 1)
\* 86400000 = 2^26+2^24+2^21+2^18+2^17+2^14+2^12+2^11+2^10
DaysToMs(d) == BAdd(BAdd(BAdd(BAdd(BAdd(BAdd(BAdd(BAdd(ShlN(d, 26), ShlN(d, 24)), ShlN(d, 21)), ShlN(d, 18)),
                                    ShlN(d, 17)), ShlN(d, 14)), ShlN(d, 12)), ShlN(d, 11)), ShlN(d, 10))
TdMinMs == BNeg(DaysToMs(NatBits(999999999)))
\* the last millisecond a reader can return: 9999-12-31T23:59:59.999 UTC (2932897 days after the epoch, minus 1 ms)
DtMaxMs == BAdd(DaysToMs(NatBits(2932897)), IntBits(-1))

Member(t, c) ==
  IF t \in IntTypes THEN
    K(c) \in {"int", "bits"} /\
    (LET d == TypeRange(t) IN IF d[1] THEN FitsS(ValBits(c), d[2]) ELSE FitsU(ValBits(c), d[2]))
  ELSE IF t = "f64" THEN K(c) = "flt" /\ c.flt = "finite"
  ELSE IF t = "i32Timedelta" THEN
    K(c) = "td" /\ (\/ (FitsS(ValBits(c.td[1]), 32) /\ c.td[2] = 0)
                    \/ (FitsS(ValBits(c.td[1]), 32) /\ FitsS(BAdd(ValBits(c.td[1]), One), 32)))
  ELSE IF t = "i64Timedelta" THEN
    K(c) = "td" /\ BLeq(tdmin, ValBits(c.td[1])) /\ BLeq(ValBits(c.td[1]), tdmax)
  ELSE IF t = "TZAware" THEN
    \* aware, whole milliseconds, not before the epoch (-1 is the wire null) and not after the last instant
    \* a reader can return (members are accepted by the writer AND read back equal)
    K(c) = "dt" /\ c.dt[1] = 1 /\ c.dt[3] = 0 /\ Sign(ValBits(c.dt[2])) = 0 /\ BLeq(ValBits(c.dt[2]), dtmax)
  ELSE IF t = "TZAwareMicros" THEN
    K(c) = "dt" /\ c.dt[1] = 1 /\ Sign(ValBits(c.dt[2])) = 0
  ELSE FALSE

TFails(r) ==
  LET m == Member(r.t, r.c) IN
     (IF r.isinst = m THEN {} ELSE {IF m THEN "member_not_recognised" ELSE "non_member_accepted_by_isinstance"})
  \cup (IF m /\ r.ctor # "same" THEN {"constructor_did_not_return_member_unchanged"} ELSE {})
  \cup (IF ~m /\ r.ctor # "TypeError" THEN {"constructor_did_not_reject_with_TypeError"} ELSE {})
  \cup (IF m /\ r.rt \notin {"ok", "n/a"} THEN {"member_does_not_round_trip_through_writer_reader"} ELSE {})

\* ---- the table walk --------------------------------------------------------
Init == i = 1 /\ bad = 0 /\ tdmin = TdMinMs /\ tdmax = BAdd(BNeg(TdMinMs), IntBits(-1)) /\ dtmax = DtMaxMs
Next ==
  /\ i <= N
  /\ LET r == Rows[i]
         f == IF r.k = "w" THEN WFails(r) ELSE IF r.k = "r" THEN RFails(r) ELSE TFails(r) IN
     /\ IF f # {} THEN PrintT(ToJson([id |-> r.id, fails |-> f])) ELSE TRUE
     /\ bad' = bad + (IF f = {} THEN 0 ELSE 1)
  /\ i' = i + 1
  /\ UNCHANGED <<tdmin, tdmax, dtmax>>
Spec == Init /\ [][Next]_<<i, bad, tdmin, tdmax, dtmax>>
AllJudged == TLCGet("stats").diameter >= N
=============================================================================
