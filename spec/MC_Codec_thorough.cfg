SPECIFICATION Spec
CONSTANTS
  MaxFields = 2
  Rich = FALSE
  Emit = FALSE
INVARIANT InDomainInv
INVARIANT RoundTrip
INVARIANT Canonical
INVARIANT PrefixFree
CHECK_DEADLOCK FALSE
