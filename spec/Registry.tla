------------------------------ MODULE Registry ------------------------------
(***************************************************************************)
(* C19: readers and writers are stateless.                                 *)
(*                                                                         *)
(* entity_reader / entity_writer are memoised factories (functools.cache,  *)
(* which does NOT hold a lock across the factory body: two threads can     *)
(* both miss and both build).  A built codec is a closure that walks a     *)
(* plan; in flexible versions it stages the tagged section in a private    *)
(* buffer (one per open section, one more per tagged field) and flushes it *)
(* with a count in front.  A call can fail at any stream operation.        *)
(*                                                                         *)
(* The model: threads start calls (kind, class, value, fail position);     *)
(* a cache miss builds the class and, recursively, its nested classes;     *)
(* the call then executes its plan one stream/staging step at a time,      *)
(* interleaved arbitrarily with the other threads; any caching policy is   *)
(* allowed (Evict is always enabled when Evicting).  ResultIsFunction says *)
(* every completed call's output depends on (kind, class, value) only.     *)
(*                                                                         *)
(* Scratch = "private" is the design.  Scratch = "percodec" keeps the      *)
(* staging buffer in the cached codec and clears it only after a           *)
(* successful flush; Scratch = "global" uses one module-level buffer.      *)
(* TLC must find counterexamples for both (MC_Registry_neg*.cfg): that is  *)
(* the evidence that the explored histories, failure points and            *)
(* interleavings are rich enough to expose the changes C19 is about.       *)
(***************************************************************************)
EXTENDS Naturals, Sequences, FiniteSets, TLC

CONSTANTS Threads, MaxOps, Scratch, Evicting, Vals,
          StartKinds, StartClasses    \* what calls may be started (bounds the model)

Classes == {"A", "B", "H"}
Kinds == {"w", "r"}
Nested(c) == IF c = "A" THEN {"B"} ELSE {}
Keys == Kinds \X Classes

\* ---- plans: put x | open (start staging) | close (flush staged bytes with a count) ----
Put(x) == [op |-> "put", x |-> x]
Open == [op |-> "open", x |-> <<>>]
Close == [op |-> "close", x |-> <<>>]
PlanOf(c, v) ==
  CASE c = "H" -> << Put(<<"H", v>>), Put(<<"Hid", v>>) >>
    [] c = "B" -> << Put(<<"B", v>>), Open, Put(<<"Bt", v>>), Close >>
    [] c = "A" -> << Put(<<"A", v>>), Open, Put(<<"tag", 0>>), Open, Put(<<"B", v>>), Open,
                     Put(<<"Bt", v>>), Close, Close, Put(<<"At", v>>), Close >>

\* the specified output: the plan run on a private stack of buffers
RECURSIVE Run(_, _, _, _)
Run(plan, i, sink, stack) ==
  IF i > Len(plan) THEN sink
  ELSE LET s == plan[i] IN
    IF s.op = "open" THEN Run(plan, i + 1, sink, Append(stack, <<>>))
    ELSE IF s.op = "put" THEN
      IF stack = <<>> THEN Run(plan, i + 1, Append(sink, s.x), stack)
      ELSE Run(plan, i + 1, sink, [stack EXCEPT ![Len(stack)] = Append(@, s.x)])
    ELSE LET top == stack[Len(stack)]
             rest == SubSeq(stack, 1, Len(stack) - 1)
             flushed == <<<<"count", Len(top)>>>> \o top IN
      IF rest = <<>> THEN Run(plan, i + 1, sink \o flushed, rest)
      ELSE Run(plan, i + 1, sink, [rest EXCEPT ![Len(rest)] = @ \o flushed])
Expected(c, v) == Run(PlanOf(c, v), 1, <<>>, <<>>)

VARIABLES cache,     \* set of keys whose codec is currently cached
          build,     \* build[t]: stack of classes thread t is building (factory bodies entered)
          cur,       \* cur[t]: the call in flight, or Idle
          pc,        \* pc[t]: next plan step
          sink,      \* sink[t]: what the call has written to its own stream so far
          stack,     \* stack[t]: private staging buffers of the call
          shared,    \* staging state that outlives a call (only when Scratch # "private")
          ops,       \* ops[t]: calls started so far
          results    \* completed calls
vars == <<cache, build, cur, pc, sink, stack, shared, ops, results>>

Idle == [kind |-> "-", cls |-> "-", val |-> 0, fail |-> 0]

Init ==
  /\ cache = {} /\ build = [t \in Threads |-> <<>>] /\ cur = [t \in Threads |-> Idle]
  /\ pc = [t \in Threads |-> 1] /\ sink = [t \in Threads |-> <<>>] /\ stack = [t \in Threads |-> <<>>]
  /\ shared = [k \in Keys \cup {<<"g", "g">>} |-> <<>>] /\ ops = [t \in Threads |-> 0] /\ results = {}

\* a thread asks the factory for a codec: hit -> use it; miss -> enter the factory body
Start(t, kind, c, v, f) ==
  /\ cur[t] = Idle /\ build[t] = <<>> /\ ops[t] < MaxOps
  /\ cur' = [cur EXCEPT ![t] = [kind |-> kind, cls |-> c, val |-> v, fail |-> f]]
  /\ ops' = [ops EXCEPT ![t] = @ + 1]
  /\ pc' = [pc EXCEPT ![t] = 1] /\ sink' = [sink EXCEPT ![t] = <<>>] /\ stack' = [stack EXCEPT ![t] = <<>>]
  /\ build' = [build EXCEPT ![t] = IF <<kind, c>> \in cache THEN <<>> ELSE <<c>>]
  /\ UNCHANGED <<cache, shared, results>>

\* inside a factory body: first the nested classes' codecs (recursive lookups), then store
BuildStep(t) ==
  /\ build[t] # <<>>
  /\ LET c == build[t][Len(build[t])] k == cur[t].kind
         missing == {n \in Nested(c) : <<k, n>> \notin cache} IN
     IF missing # {} THEN
       /\ \E n \in missing : build' = [build EXCEPT ![t] = Append(@, n)]
       /\ UNCHANGED cache
     ELSE
       /\ cache' = cache \cup {<<k, c>>}          \* last writer wins; the plan is the same
       /\ build' = [build EXCEPT ![t] = SubSeq(@, 1, Len(@) - 1)]
  /\ UNCHANGED <<cur, pc, sink, stack, shared, ops, results>>

Evict(key) == Evicting /\ key \in cache /\ cache' = cache \ {key}
              /\ UNCHANGED <<build, cur, pc, sink, stack, shared, ops, results>>

Plan(t) == PlanOf(cur[t].cls, cur[t].val)
SharedKey(t) == IF Scratch = "global" THEN <<"g", "g">> ELSE <<cur[t].kind, cur[t].cls>>

\* one stream / staging operation of the call
UseStep(t) ==
  /\ cur[t] # Idle /\ build[t] = <<>> /\ pc[t] <= Len(Plan(t)) /\ pc[t] # cur[t].fail
  /\ LET s == Plan(t)[pc[t]] IN
     /\ pc' = [pc EXCEPT ![t] = @ + 1]
     /\ IF Scratch = "private" \/ Len(stack[t]) > 1 \/ (s.op = "open" /\ stack[t] # <<>>) THEN
          \* the design: every open section has its own private buffer
          /\ UNCHANGED shared
          /\ IF s.op = "open" THEN stack' = [stack EXCEPT ![t] = Append(@, <<>>)] /\ UNCHANGED sink
             ELSE IF s.op = "put" THEN
               IF stack[t] = <<>> THEN sink' = [sink EXCEPT ![t] = Append(@, s.x)] /\ UNCHANGED stack
               ELSE stack' = [stack EXCEPT ![t][Len(stack[t])] = Append(@, s.x)] /\ UNCHANGED sink
             ELSE LET top == stack[t][Len(stack[t])]
                      rest == SubSeq(stack[t], 1, Len(stack[t]) - 1)
                      flushed == <<<<"count", Len(top)>>>> \o top IN
               IF rest = <<>> THEN sink' = [sink EXCEPT ![t] = @ \o flushed] /\ stack' = [stack EXCEPT ![t] = rest]
               ELSE stack' = [stack EXCEPT ![t] = [rest EXCEPT ![Len(rest)] = @ \o flushed]] /\ UNCHANGED sink
        ELSE
          \* the seeded variants: the OUTERMOST section is staged in state that outlives the call
          \* (marker <<>> on the private stack) and is cleared only after a successful flush
          IF s.op = "open" THEN stack' = [stack EXCEPT ![t] = <<<<>>>>] /\ UNCHANGED <<sink, shared>>
          ELSE IF s.op = "put" THEN
            IF stack[t] = <<>> THEN sink' = [sink EXCEPT ![t] = Append(@, s.x)] /\ UNCHANGED <<stack, shared>>
            ELSE shared' = [shared EXCEPT ![SharedKey(t)] = Append(@, s.x)] /\ UNCHANGED <<sink, stack>>
          ELSE LET top == shared[SharedKey(t)] IN
            /\ sink' = [sink EXCEPT ![t] = @ \o <<<<"count", Len(top)>>>> \o top]
            /\ stack' = [stack EXCEPT ![t] = <<>>]
            /\ shared' = [shared EXCEPT ![SharedKey(t)] = <<>>]
  /\ UNCHANGED <<cache, build, cur, ops, results>>

\* nested flushes in the seeded variants append to the shared buffer
\* (handled above through Len(stack[t]) > 1 using private buffers for inner sections)

\* the stream raises at this operation: the call's private state is dropped, nothing else changes
Fail(t) ==
  /\ cur[t] # Idle /\ build[t] = <<>> /\ pc[t] = cur[t].fail /\ pc[t] <= Len(Plan(t))
  /\ cur' = [cur EXCEPT ![t] = Idle] /\ sink' = [sink EXCEPT ![t] = <<>>] /\ stack' = [stack EXCEPT ![t] = <<>>]
  /\ UNCHANGED <<cache, build, pc, shared, ops, results>>

Finish(t) ==
  /\ cur[t] # Idle /\ build[t] = <<>> /\ pc[t] > Len(Plan(t))
  /\ results' = results \cup {[kind |-> cur[t].kind, cls |-> cur[t].cls, val |-> cur[t].val, out |-> sink[t]]}
  /\ cur' = [cur EXCEPT ![t] = Idle] /\ sink' = [sink EXCEPT ![t] = <<>>] /\ stack' = [stack EXCEPT ![t] = <<>>]
  /\ UNCHANGED <<cache, build, pc, shared, ops>>

Next ==
  \/ \E t \in Threads :
       \/ \E kind \in StartKinds, c \in StartClasses, v \in Vals, f \in 0..11 : f <= Len(PlanOf(c, v)) /\ Start(t, kind, c, v, f)
       \/ BuildStep(t) \/ UseStep(t) \/ Fail(t) \/ Finish(t)
  \/ \E key \in Keys : Evict(key)

Spec == Init /\ [][Next]_vars

\* ---- properties -----------------------------------------------------------------
ResultIsFunction == \A r \in results : r.out = Expected(r.cls, r.val)

\* a cached codec's nested codecs were built before it was stored (builds complete bottom-up),
\* and a failed or concurrent build never leaves anything but the canonical plan behind
\* (there is only one plan per key in this model, so this is about the build discipline)
BuildDiscipline ==
  \A t \in Threads : \A i \in 1..Len(build[t]) :
     i > 1 => build[t][i] \in Nested(build[t][i-1])

\* private staging state belongs to a call in flight only
NoResidue == \A t \in Threads : cur[t] = Idle => (sink[t] = <<>> /\ stack[t] = <<>>)
PrivateDesignHasNoSharedState == Scratch = "private" => \A k \in DOMAIN shared : shared[k] = <<>>

\* every started call eventually finishes or fails (checked with fairness in the liveness config)
Fairness == \A t \in Threads : WF_vars(BuildStep(t)) /\ WF_vars(UseStep(t)) /\ WF_vars(Fail(t)) /\ WF_vars(Finish(t))
LiveSpec == Spec /\ Fairness
CallsTerminate == \A t \in Threads : (cur[t] # Idle) ~> (cur[t] = Idle)
=============================================================================
