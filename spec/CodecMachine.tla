---------------------------- MODULE CodecMachine ----------------------------
(***************************************************************************)
(* The decoder as an operational machine shaped like kio's entity reader:  *)
(* a transducer over a consume-only source.  One step decodes one          *)
(* primitive, length prefix, marker, tagged-section count or tagged-field  *)
(* header at the current position (each a bounded number of exact-size     *)
(* read calls), or gives up in an error status.  The frame stack `k` is    *)
(* the closure structure of the built reader; the value stack `vs` the     *)
(* partially built entity.                                                 *)
(*                                                                         *)
(* Unlike the strict definitional decoder KafkaCodec.Dec, the machine has  *)
(* the NAMED LENIENCIES of the implementation:                             *)
(*   Lenient_NullArray       a null array is returned as null even where   *)
(*                           the schema does not allow it                  *)
(*   Lenient_NegativeLength  an array length < -1 yields an empty array    *)
(*   Lenient_TaggedSize      the size of a KNOWN tagged field is ignored   *)
(*   Lenient_TagOrder        tags may repeat or descend; the last wins     *)
(* Properties (checked by MC_CodecMachine over ALL byte strings up to a    *)
(* bound over a small alphabet, for every schema of a small menu):         *)
(*   Terminates        every behaviour ends in a final status              *)
(*   StaysInside       pos <= Len(src): never consumes more than given     *)
(*   LinearReads       reads <= 2*Len(src) + 2                             *)
(*   FinalStatus       returned / underflow / unexpected_null / value_error*)
(*   RefinesStrict     whenever the strict decoder accepts the input, the  *)
(*                     machine returns the same value at the same position *)
(*   ReturnedReencodes whatever the machine returns is WellTyped up to the *)
(*                     leniencies and its canonical encoding decodes to it *)
(***************************************************************************)
EXTENDS KafkaCodec

VARIABLES src,     \* the input (fixed per behaviour)
          sch,     \* the schema being decoded (fixed per behaviour)
          pos,     \* bytes consumed
          k,       \* frame stack (top = head)
          vs,      \* value stack (top = head)
          st,      \* "run" | "returned" | "underflow" | "unexpected_null" | "value_error"
          reads    \* number of read calls issued so far
vars == <<src, sch, pos, k, vs, st, reads>>

Frame(t, s, f, n) == [t |-> t, s |-> s, f |-> f, n |-> n]
NoS == [name |-> "", flex |-> FALSE, fields |-> <<>>]
NoF == [name |-> "", kind |-> "prim", arr |-> FALSE, ktype |-> "int8", nul |-> FALSE, inul |-> FALSE,
        tag |-> -1, hasd |-> FALSE, dflt |-> NullV, sub |-> NoS]

Push(fs) == fs \o Tail(k)          \* replace the top frame by the frames fs

\* number of read calls kio issues for a primitive decode that consumed/inspected n bytes
VarReads(bs, p) == LET n == VarLen(bs, p, MaxVarintBytes) IN IF n <= 0 THEN Len(bs) - p + 1 ELSE n

Fail(status, p) == /\ st' = status /\ pos' = p /\ UNCHANGED <<src, sch, k, vs>>

\* ---- one step ------------------------------------------------------------------
StepStruct ==        \* expand: untagged fields in order, then the tagged section, then build
  LET fr == Head(k) s == fr.s U == UntaggedIdx(s) IN
  /\ fr.t = "struct"
  /\ k' = Push([j \in 1..Len(U) |-> Frame("field", s, s.fields[U[j]], 0)]
               \o (IF s.flex THEN <<Frame("tagcount", s, NoF, 0)>> ELSE <<>>)
               \o <<Frame("mkrec", s, NoF, Len(U))>>)
  /\ UNCHANGED <<src, sch, pos, vs, st, reads>>

StepField ==
  LET fr == Head(k) s == fr.s f == fr.f IN
  /\ fr.t = "field"
  /\ IF f.arr THEN
       LET h == DecArrLen(FieldFlex(s, f), src, pos) IN
       /\ reads' = reads + (IF FieldFlex(s, f) THEN VarReads(src, pos) ELSE 1)
       /\ IF ~h.ok THEN Fail(h.err, h.pos)
          ELSE IF h.val.int = -1 THEN                         \* Lenient_NullArray
               /\ vs' = <<NullV>> \o vs /\ k' = Tail(k) /\ pos' = h.pos /\ UNCHANGED <<src, sch, st>>
          ELSE LET n == IF h.val.int < -1 THEN 0 ELSE h.val.int IN     \* Lenient_NegativeLength
                    /\ k' = Push([j \in 1..(IF n > Len(src) THEN Len(src) + 1 ELSE n) |-> Frame("item", s, f, 0)]
                                 \o <<Frame("mkseq", s, f, n)>>)
                    /\ pos' = h.pos /\ UNCHANGED <<src, sch, vs, st>>
     ELSE /\ k' = Push(<<Frame("item", s, f, 1)>>)           \* n = 1: a field position (nullable marker applies)
          /\ UNCHANGED <<src, sch, pos, vs, st, reads>>

StepItem ==
  LET fr == Head(k) s == fr.s f == fr.f infield == fr.n = 1 IN
  /\ fr.t = "item"
  /\ IF f.kind = "struct" THEN
       IF infield /\ f.nul THEN                                \* KIP-893 marker
         /\ reads' = reads + 1
         /\ IF pos + 1 > Len(src) THEN Fail("underflow", pos)
            ELSE IF src[pos + 1] = NullableStructNull THEN
              /\ vs' = <<NullV>> \o vs /\ k' = Tail(k) /\ pos' = pos + 1 /\ UNCHANGED <<src, sch, st>>
            ELSE IF src[pos + 1] = NullableStructPresent THEN
              /\ k' = Push(<<Frame("struct", f.sub, NoF, 0)>>) /\ pos' = pos + 1 /\ UNCHANGED <<src, sch, vs, st>>
            ELSE Fail("value_error", pos + 1)
       ELSE /\ k' = Push(<<Frame("struct", f.sub, NoF, 0)>>) /\ UNCHANGED <<src, sch, pos, vs, st, reads>>
     ELSE
       LET nul == IF infield THEN (f.nul \/ IsClientId(s, f)) ELSE f.inul
           r == DecPrim(f.ktype, FieldFlex(s, f), nul, src, pos) IN
       /\ reads' = reads + (IF f.ktype \in {"string", "bytes", "records"} THEN
                              (IF FieldFlex(s, f) THEN VarReads(src, pos) ELSE 1) + 1 ELSE 1)
       /\ IF ~r.ok THEN Fail(r.err, r.pos)
          ELSE /\ vs' = <<r.val>> \o vs /\ k' = Tail(k) /\ pos' = r.pos /\ UNCHANGED <<src, sch, st>>

StepMkSeq ==
  LET fr == Head(k) n == fr.n IN
  /\ fr.t = "mkseq"
  /\ vs' = <<SeqV(Reverse(SubSeq(vs, 1, n)))>> \o SubSeq(vs, n + 1, Len(vs))
  /\ k' = Tail(k) /\ UNCHANGED <<src, sch, pos, st, reads>>

StepTagCount ==
  LET fr == Head(k) h == DecUVarBits(src, pos, MaxVarintBytes) IN
  /\ fr.t = "tagcount"
  /\ reads' = reads + VarReads(src, pos)
  /\ IF ~h.ok THEN Fail(h.err, h.pos)
     ELSE LET n == LenOfBits(h.val) IN
          /\ k' = Push([j \in 1..(IF n > Len(src) THEN Len(src) + 1 ELSE n) |-> Frame("taghdr", fr.s, NoF, 0)])
          /\ vs' = <<[tagged |-> <<>>]>> \o vs            \* accumulator of tagged values seen
          /\ pos' = h.pos /\ UNCHANGED <<src, sch, st>>

StepTagHdr ==
  LET fr == Head(k) s == fr.s
      t == DecUVarBits(src, pos, MaxVarintBytes) IN
  /\ fr.t = "taghdr"
  /\ IF ~t.ok THEN reads' = reads + VarReads(src, pos) /\ Fail(t.err, t.pos)
     ELSE LET z == DecUVarBits(src, t.pos, MaxVarintBytes) IN
       /\ reads' = reads + VarReads(src, pos) + VarReads(src, t.pos)
       /\ IF ~z.ok THEN Fail(z.err, z.pos)
          ELSE LET tag == LenOfBits(t.val) size == LenOfBits(z.val) IN
            IF tag \in KnownTags(s) THEN               \* Lenient_TaggedSize, Lenient_TagOrder
              LET i == CHOOSE j \in 1..Len(s.fields) : s.fields[j].tag = tag IN
              /\ k' = Push(<<Frame("field", s, s.fields[i], 0), Frame("tagstore", s, NoF, i)>>)
              /\ pos' = z.pos /\ UNCHANGED <<src, sch, vs, st>>
            ELSE                                        \* unknown tag: skipped by its size prefix
              IF z.pos + size > Len(src) THEN Fail("underflow", Len(src))
              ELSE /\ pos' = z.pos + size /\ k' = Tail(k) /\ UNCHANGED <<src, sch, vs, st>>

StepTagStore ==
  LET fr == Head(k) i == fr.n acc == vs[2] IN
  /\ fr.t = "tagstore"
  /\ vs' = <<[tagged |-> (i :> vs[1]) @@ acc.tagged]>> \o SubSeq(vs, 3, Len(vs))
  /\ k' = Tail(k) /\ UNCHANGED <<src, sch, pos, st, reads>>

StepMkRec ==
  LET fr == Head(k) s == fr.s U == UntaggedIdx(s) n == Len(U)
      hasacc == s.flex
      acc == IF hasacc THEN vs[1].tagged ELSE <<>>
      body == IF hasacc THEN SubSeq(vs, 2, n + 1) ELSE SubSeq(vs, 1, n)
      rest == SubSeq(vs, (IF hasacc THEN n + 2 ELSE n + 1), Len(vs))
      posOf(i) == CHOOSE j \in 1..n : U[j] = i
      val == RecV([i \in 1..Len(s.fields) |->
                     IF s.fields[i].tag < 0 THEN body[n + 1 - posOf(i)]
                     ELSE IF i \in DOMAIN acc THEN acc[i] ELSE DefaultOf(s.fields[i])]) IN
  /\ fr.t = "mkrec"
  /\ vs' = <<val>> \o rest /\ k' = Tail(k) /\ UNCHANGED <<src, sch, pos, st, reads>>

Return == /\ k = <<>> /\ st = "run" /\ st' = "returned" /\ UNCHANGED <<src, sch, pos, k, vs, reads>>

Step == st = "run" /\ k # <<>> /\
        (StepStruct \/ StepField \/ StepItem \/ StepMkSeq \/ StepTagCount \/ StepTagHdr \/ StepTagStore \/ StepMkRec)
Next == Step \/ Return

Start(s, bytes) ==
  /\ src = bytes /\ sch = s /\ pos = 0 /\ k = <<Frame("struct", s, NoF, 0)>> /\ vs = <<>> /\ st = "run" /\ reads = 0

\* ---- properties ------------------------------------------------------------------
Final == st # "run"
FinalStatus == st \in {"run", "returned", "underflow", "unexpected_null", "value_error"}
StaysInside == pos <= Len(src)
LinearReads == reads <= 2 * Len(src) + 2
RefinesStrict ==
  Final => LET d == Dec(sch, src) IN d.ok => (st = "returned" /\ vs[1] = d.val /\ pos = d.pos)
UnderflowOnlyAtEnd == st = "underflow" => pos <= Len(src)
\* what comes back can be encoded again, and its canonical encoding decodes (strictly) to it,
\* unless a leniency produced a null where the schema has none
RECURSIVE LenientNull(_, _)
LenientNull(s, v) ==
  \E i \in 1..Len(s.fields) :
    LET f == s.fields[i] x == v.rec[i] IN
    \/ (f.arr /\ IsNull(x) /\ ~f.nul)
    \/ (f.kind = "struct" /\ ~f.arr /\ ~IsNull(x) /\ LenientNull(f.sub, x))
    \/ (f.kind = "struct" /\ f.arr /\ ~IsNull(x) /\ \E j \in 1..Len(x.seq) : LenientNull(f.sub, x.seq[j]))
ReturnedReencodes ==
  st = "returned" => (LenientNull(sch, vs[1]) \/
                      LET b == Enc(sch, vs[1]) d == Dec(sch, b) IN d.ok /\ d.val = vs[1] /\ d.pos = Len(b))
=============================================================================
