------------------------------- MODULE PinCheck -------------------------------
(***************************************************************************)
(* C04, part 1: the abstract model of the shipped schema package equals    *)
(* the committed pin of the release (pins/schema-3.9.0.json.gz) - class    *)
(* set, field names/order/types/nullability/tags/defaults, flexibility,    *)
(* API key, header schema, dataclass options, exports, index, error table, *)
(* custom types - and agrees with the per-family table of Pins.tla.        *)
(* A hand edit of a generated module that changes the model is a           *)
(* difference against the pin; formatting and docstrings are not part of   *)
(* the model.                                                              *)
(***************************************************************************)
EXTENDS Pins, Json, IOUtils, TLC, TLCExt, Sequences, FiniteSets

Data == JsonDeserialize(IOEnv.KIO_TRACE_FILE)
Live == Data.live
Pin == Data.pin

Key(c) == <<c.module, c.name>>
LiveKeys == {Key(Live.classes[i]) : i \in 1..Len(Live.classes)}
PinKeys == {Key(Pin.classes[i]) : i \in 1..Len(Pin.classes)}

Rep(kind, id, name, what) ==
  PrintT(ToJson([kind |-> kind, id |-> id, name |-> name, what |-> what]))

\* families of the live package: <<api, etype, key, min version, max version, first flexible or -1>>
ApiOf(c) == c.module       \* module path kio.schema.<api>.v<N>.<etype>; the harness supplies api/etype
LiveFamilies == Data.families

VARIABLES ph, i
Init == ph = "pin" /\ i = 1
Next ==
  \/ /\ ph = "pin" /\ i <= Len(Pin.classes)
     /\ LET p == Pin.classes[i]
            hits == SelectSeq(Live.classes, LAMBDA c : Key(c) = Key(p)) IN
        IF hits = <<>> THEN Rep("class", p.module, p.name, "pinned class is not shipped")
        ELSE IF hits[1] # p THEN Rep("class", p.module, p.name, "shipped class differs from the pin")
        ELSE TRUE
     /\ i' = i + 1 /\ ph' = ph
  \/ /\ ph = "pin" /\ i > Len(Pin.classes) /\ ph' = "live" /\ i' = 1
  \/ /\ ph = "live" /\ i <= Len(Live.classes)
     /\ (IF Key(Live.classes[i]) \notin PinKeys
         THEN Rep("class", Live.classes[i].module, Live.classes[i].name, "shipped class is not in the pin") ELSE TRUE)
     /\ i' = i + 1 /\ ph' = ph
  \/ /\ ph = "live" /\ i > Len(Live.classes) /\ ph' = "rest" /\ i' = 1
  \/ /\ ph = "rest"
     /\ (IF Live.exports # Pin.exports THEN Rep("exports", "__all__", "", "exports differ from the pin") ELSE TRUE)
     /\ (IF Live.index_keys # Pin.index_keys THEN Rep("index", "api_key_map", "", "api_key_map differs from the pin") ELSE TRUE)
     /\ (IF Live.index_entries # Pin.index_entries THEN Rep("index", "schema_name_map", "", "schema_name_map differs from the pin") ELSE TRUE)
     /\ (IF Live.errors # Pin.errors THEN Rep("errors", "ErrorCode", "", "error table differs from the pin") ELSE TRUE)
     /\ (IF Live.types # Pin.types THEN Rep("types", "kio.schema.types", "", "custom types differ from the pin") ELSE TRUE)
     /\ (IF {LiveFamilies[j] : j \in 1..Len(LiveFamilies)} # PinnedFamilies
         THEN Rep("families", "Pins.tla", "", "per-family table (key, version range, first flexible version) differs") ELSE TRUE)
     /\ (IF Cardinality({Live.index_keys[j][1] : j \in 1..Len(Live.index_keys)}) # PinnedApiKeys
         THEN Rep("totals", "api keys", "", "number of API keys differs from the pinned total") ELSE TRUE)
     /\ (IF Len(Live.classes) - 1 # PinnedClasses
         THEN Rep("totals", "classes", "", "number of classes differs from the pinned total") ELSE TRUE)
     /\ ph' = "done" /\ i' = 1
Spec == Init /\ [][Next]_<<ph, i>>
=============================================================================
