SPECIFICATION Spec
CONSTANTS
  Addrs = {1, 2}
  Descs = {"arrayOfWide", "arrayOfNarrow", "optionalWide"}
  Memo = "none"
  MaxSteps = 9
INVARIANT ClassifiedByDescription
INVARIANT NoMemoOfTheDead
CHECK_DEADLOCK FALSE
