----------------------------- MODULE CodecEncode -----------------------------
(***************************************************************************)
(* Pass 1 of the wire-first checks (C03, C05, C06, C10): the specification *)
(* produces the bytes a Kafka peer would send for (schema, value, variant).*)
(* One state per case; the bytes are printed as JSON.  Pass 2 (CodecTrace) *)
(* recomputes them, so no verdict rests on the harness copying correctly.  *)
(***************************************************************************)
EXTENDS TraceIO, Json, IOUtils, TLCExt

Data == JsonDeserialize(IOEnv.KIO_TRACE_FILE)
Schemas == Data.schemas
Cases == Data.cases
N == Len(Cases)

VARIABLE ci
Init == ci = 1
Next == /\ ci <= N
        /\ LET c == Cases[ci] s == Schemas[c.sid] IN
           LET v == ExpandV(c.value) b == EncStructV(s, v, c.var) IN
           PrintT(ToJson([id |-> c.id, wt |-> WellTyped(s, v), n |-> Len(b), b |-> PrintBytes(b)]))
        /\ ci' = ci + 1
Spec == Init /\ [][Next]_ci
AllEncoded == TLCGet("stats").diameter >= N
=============================================================================
