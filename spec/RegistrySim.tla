----------------------------- MODULE RegistrySim -----------------------------
(***************************************************************************)
(* Registry with a history variable, for exporting behaviours (operation   *)
(* sequences with their thread interleaving) that the harness replays on   *)
(* the real entity_reader / entity_writer factories (spec -> code).        *)
(* Run with `tlc -simulate`; a behaviour is printed when every thread has  *)
(* finished its calls.                                                     *)
(***************************************************************************)
EXTENDS Registry, Json

VARIABLE hist
svars == <<vars, hist>>

Ev(t, a, kind, c, v, f) == [t |-> t, a |-> a, kind |-> kind, cls |-> c, val |-> v, fail |-> f]

SimInit == Init /\ hist = <<>>
SimNext ==
  \/ \E t \in Threads :
       \/ \E kind \in StartKinds, c \in StartClasses, v \in Vals, f \in 0..11 :
            /\ f <= Len(PlanOf(c, v)) /\ Start(t, kind, c, v, f)
            /\ hist' = Append(hist, Ev(t, "start", kind, c, v, f))
       \/ BuildStep(t) /\ hist' = Append(hist, Ev(t, "build", "-", "-", 0, 0))
       \/ UseStep(t) /\ hist' = Append(hist, Ev(t, "step", "-", "-", 0, 0))
       \/ Fail(t) /\ hist' = Append(hist, Ev(t, "fail", "-", "-", 0, 0))
       \/ Finish(t) /\ hist' = Append(hist, Ev(t, "finish", "-", "-", 0, 0))
  \/ \E key \in Keys : Evict(key) /\ hist' = Append(hist, Ev(0, "evict", key[1], key[2], 0, 0))
SimSpec == SimInit /\ [][SimNext]_svars

Done == \A t \in Threads : ops[t] = MaxOps /\ cur[t] = Idle
Export == Done => PrintT(ToJson(hist))
=============================================================================
