----------------------------- MODULE StreamTrace -----------------------------
(***************************************************************************)
(* Trace validation for C07.  A case is a sequence of messages (header,    *)
(* payload, header, payload ... of arbitrary classes) written back to back *)
(* to ONE stream of each sink kind, between leading and trailing junk, and *)
(* read back from one source of each kind.  The specified stream is        *)
(*      pre \o Enc(m1) \o Enc(m2) \o ... \o post                           *)
(* and the Stream model's invariants are evaluated on what was recorded:   *)
(*  - every sink ends up holding exactly the specified stream, whatever    *)
(*    its kind (in-memory, write-only, object-keeping, asyncio writer,     *)
(*    socket file, buffered pipe);                                         *)
(*  - the sink after message k holds exactly Boundary(k) bytes;            *)
(*  - on the instrumented sink/source only write / read calls occur, sizes *)
(*    are non-negative and reads are exact;                                *)
(*  - every source delivers the original values in order, is positioned at *)
(*    Boundary(k) after message k, and leaves exactly `post` unread.       *)
(***************************************************************************)
EXTENDS TraceIO, Json, IOUtils, TLCExt

Data == JsonDeserialize(IOEnv.KIO_TRACE_FILE)
Schemas == Data.schemas
Cases == Data.cases
N == Len(Cases)

Encs(c) == [k \in 1..Len(c.msgs) |-> Enc(Schemas[c.msgs[k].sid], ExpandV(c.msgs[k].value))]
\* what a peer may have written instead: a conforming variant of each message (explicit defaults,
\* unknown tagged fields); the sources are fed this stream
EncsV(c) == [k \in 1..Len(c.msgs) |-> EncStructV(Schemas[c.msgs[k].sid], ExpandV(c.msgs[k].value), c.msgs[k].var)]
RECURSIVE Bounds(_, _, _)
Bounds(encs, k, acc) ==      \* positions after each message
  IF k > Len(encs) THEN <<>>
  ELSE <<acc + Len(encs[k])>> \o Bounds(encs, k + 1, acc + Len(encs[k]))

SinkFails(s, full, bounds) ==
     (IF s.out = "ok" THEN {} ELSE {"sink_" \o s.kind \o "_writer_raised"})
  \cup (IF s.out = "ok" /\ Bytes(s.data) # full THEN {"sink_" \o s.kind \o "_bytes_differ"} ELSE {})
  \cup (IF s.out = "ok" /\ s.marks # <<>> /\ s.marks # bounds THEN {"sink_" \o s.kind \o "_message_boundary_differs"} ELSE {})
  \cup (IF \A i \in 1..Len(s.ev) : s.ev[i].op = "w" /\ s.ev[i].n >= 0 THEN {} ELSE {"sink_used_other_than_sequential_write"})

SourceFails(s, c, bounds, post) ==
     (IF s.out = "ok" THEN {} ELSE {"source_" \o s.kind \o "_reader_raised"})
  \cup (IF s.out = "ok" /\ ~(Len(s.vals) = Len(c.msgs) /\ \A k \in 1..Len(c.msgs) : ExpandV(s.vals[k]) = ExpandV(c.msgs[k].value))
        THEN {"source_" \o s.kind \o "_decoded_values_differ"} ELSE {})
  \cup (IF s.out = "ok" /\ s.marks # <<>> /\ s.marks # bounds THEN {"source_" \o s.kind \o "_not_on_message_boundary"} ELSE {})
  \cup (IF s.out = "ok" /\ Bytes(s.rest) # post THEN {"source_" \o s.kind \o "_trailing_bytes_consumed_or_left"} ELSE {})
  \cup (IF \A i \in 1..Len(s.ev) : s.ev[i].op = "r" /\ s.ev[i].n >= 0 /\ s.ev[i].got = s.ev[i].n THEN {}
        ELSE {"source_used_other_than_sequential_exact_read"})

CaseFails(c) ==
  LET encs == Encs(c) pre == Bytes(c.pre) post == Bytes(c.post)
      full == pre \o Flatten(encs) \o post
      bounds == Bounds(encs, 1, Len(pre))
      encsv == EncsV(c)
      boundsv == Bounds(encsv, 1, Len(pre)) IN
     UNION {SinkFails(c.sinks[i], full, bounds) : i \in 1..Len(c.sinks)}
  \cup UNION {SourceFails(c.sources[i], c, boundsv, post) : i \in 1..Len(c.sources)}
  \cup (IF Bytes(c.peer) = pre \o Flatten(encsv) \o post THEN {} ELSE {"harness_input_mismatch"})
  \cup (IF \A k \in 1..Len(c.msgs) : WellTyped(Schemas[c.msgs[k].sid], ExpandV(c.msgs[k].value)) THEN {} ELSE {"harness_value_not_well_typed"})

VARIABLE ci
Init == ci = 1
Next == /\ ci <= N
        /\ PrintT(ToJson([id |-> Cases[ci].id, fails |-> CaseFails(Cases[ci])]))
        /\ ci' = ci + 1
Spec == Init /\ [][Next]_ci
AllJudged == TLCGet("stats").diameter >= N
=============================================================================
