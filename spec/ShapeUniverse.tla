--------------------------- MODULE ShapeUniverse ---------------------------
(***************************************************************************)
(* The bounded universe of message *shapes*: every combination of field    *)
(* kind, Kafka type, flexibility, nullability, tagging, array-ness and     *)
(* nesting, with boundary values - including combinations no shipped       *)
(* Kafka 3.9.0 class uses.  Used by MC_Codec (model checking and spec ->   *)
(* code replay), Stream and the codec machines.                            *)
(***************************************************************************)
EXTENDS KafkaCodec

CONSTANTS MaxFields,    \* 1 or 2 fields per top-level schema
          Rich          \* TRUE: larger value menus

NoSub == [name |-> "", flex |-> FALSE, fields |-> <<>>]
Fld(name, kind, arr, kt, nul, inul, tag, hasd, dflt, sub) ==
  [name |-> name, kind |-> kind, arr |-> arr, ktype |-> kt, nul |-> nul, inul |-> inul,
   tag |-> tag, hasd |-> hasd, dflt |-> dflt, sub |-> sub]

KTypes == {"int8", "int16", "int32", "int64", "uint8", "uint16", "uint32", "uint64",
           "float64", "bool", "string", "bytes", "records", "uuid", "error_code",
           "timedelta_i32", "timedelta_i64", "datetime_i64"}
NullablePrims == {"string", "bytes", "records", "datetime_i64"}

MaxS(w) == [i \in 1..W |-> IF i <= w - 1 THEN 1 ELSE 0]
MinS(w) == [i \in 1..W |-> IF i >= w THEN 1 ELSE 0]
MaxU(w) == [i \in 1..W |-> IF i <= w THEN 1 ELSE 0]
Rep(c, n) == [i \in 1..n |-> c]
F64(sign, e, lowbit) == F64V(<<sign, e, [i \in 1..52 |-> IF i = 1 THEN lowbit ELSE 0]>>)

PrimVals(kt) ==
  CASE kt = "int8" -> {IntV(-128), IntV(0), IntV(127)}
    [] kt = "int16" -> {IntV(-32768), IntV(-1), IntV(32767)}
    [] kt = "int32" -> {Canon(MinS(32)), IntV(1), Canon(MaxS(32))} \cup (IF Rich THEN {IntV(0), IntV(-1)} ELSE {})
    [] kt = "int64" -> {Canon(MinS(64)), IntV(0), Canon(MaxS(64))} \cup (IF Rich THEN {IntV(-1), Canon(MaxS(54))} ELSE {})
    [] kt = "uint8" -> {IntV(0), IntV(255)}
    [] kt = "uint16" -> {IntV(0), IntV(65535)}
    [] kt = "uint32" -> {IntV(0), Canon(MaxU(32))}
    [] kt = "uint64" -> {IntV(1), Canon(MaxU(64))}
    [] kt = "float64" -> {F64(0, 0, 0), F64(1, 1023, 0), F64(0, 0, 1), F64(0, 2046, 1)}
    [] kt = "bool" -> {IntV(0), IntV(1)}
    [] kt = "string" -> {BlobV(<<>>), BlobV(<<97>>), BlobV(<<195, 169, 240, 159, 152, 128>>)}
                        \cup (IF Rich THEN {BlobV(Rep(97, 126)), BlobV(Rep(97, 127)), BlobV(Rep(98, 128))} ELSE {BlobV(Rep(97, 127))})
    [] kt \in {"bytes", "records"} -> {BlobV(<<>>), BlobV(<<0, 255>>)}
                        \cup (IF Rich THEN {BlobV(Rep(0, 127)), BlobV(Rep(255, 128))} ELSE {})
    [] kt = "uuid" -> {BlobV(Rep(0, 15) \o <<1>>), BlobV(Rep(255, 16))}
    [] kt = "error_code" -> {IntV(-1), IntV(0), IntV(127)}
    [] kt = "timedelta_i32" -> {Canon(MinS(32)), IntV(0), Canon(MaxS(32))}
    [] kt = "timedelta_i64" -> {IntV(-1), IntV(1000), Canon(MaxS(50))}
    [] kt = "datetime_i64" -> {IntV(0), IntV(1000), Canon([i \in 1..W |-> IF i > 30 THEN NatBits(1000)[i-30] ELSE 0])}

\* a non-default value of the type (for tagged fields with explicit defaults)
SomeDefault(kt) ==
  CASE kt \in {"string"} -> BlobV(<<100>>)
    [] kt \in {"bytes"} -> BlobV(<<7>>)
    [] kt = "float64" -> F64(0, 1023, 0)
    [] kt = "bool" -> IntV(1)
    [] kt = "uuid" -> NullV
    [] kt = "error_code" -> IntV(3)
    [] kt = "datetime_i64" -> IntV(5000)
    [] OTHER -> IntV(5)

ItemVals(f) ==
  IF f.kind = "prim" THEN PrimVals(f.ktype)
  ELSE LET n == Len(f.sub.fields)
           per(i) == PrimVals(f.sub.fields[i].ktype)
                     \cup (IF f.sub.fields[i].nul THEN {NullV} ELSE {})
                     \cup (IF f.sub.fields[i].tag >= 0 THEN {DefaultOf(f.sub.fields[i])} ELSE {})
       IN IF n = 1 THEN {RecV(<<a>>) : a \in per(1)}
          ELSE {RecV(<<a, b>>) : a \in per(1), b \in per(2)}

FieldVals(f) ==
  LET iv == ItemVals(f)
      one == CHOOSE x \in iv : TRUE
      two == CHOOSE x \in iv : x # one
      ivn == IF f.inul THEN iv \cup {NullV} ELSE iv
  IN (IF f.arr THEN {SeqV(<<>>), SeqV(<<one>>), SeqV(<<two, one>>)}
                    \cup (IF f.inul THEN {SeqV(<<NullV, one>>)} ELSE {})
      ELSE iv)
     \cup (IF f.nul /\ ~(f.tag >= 0 /\ ~IsNull(DefaultOf(f))) THEN {NullV} ELSE {})
     \cup (IF f.tag >= 0 THEN {DefaultOf(f)} ELSE {})

\* ---- field menus ----------------------------------------------------------
SubSchemas(flex) ==
  { [name |-> "Sub", flex |-> flex,
     fields |-> <<Fld("a", "prim", FALSE, "int16", FALSE, FALSE, -1, FALSE, NullV, NoSub)>>],
    [name |-> "Sub", flex |-> flex,
     fields |-> <<Fld("a", "prim", FALSE, "string", TRUE, FALSE, -1, FALSE, NullV, NoSub),
                  Fld("b", "prim", FALSE, "int8", FALSE, FALSE, -1, TRUE, IntV(3), NoSub)>>] }
  \cup (IF flex THEN
    { [name |-> "Sub", flex |-> TRUE,
       fields |-> <<Fld("a", "prim", FALSE, "int32", FALSE, FALSE, 0, TRUE, IntV(9), NoSub),
                    Fld("b", "prim", FALSE, "bool", FALSE, FALSE, -1, FALSE, NullV, NoSub)>>] }
    ELSE {})

PrimMenu(name, flex) ==
  { Fld(name, "prim", FALSE, kt, (kt = "uuid"), FALSE, -1, FALSE, NullV, NoSub) : kt \in KTypes }
  \cup { Fld(name, "prim", FALSE, kt, TRUE, FALSE, -1, FALSE, NullV, NoSub) : kt \in NullablePrims }
  \cup { Fld(name, "prim", TRUE, kt, nul, (kt = "uuid"), -1, FALSE, NullV, NoSub) :
           kt \in {"int8", "int32", "int64", "string", "uuid", "bytes"}, nul \in BOOLEAN }
  \cup (IF flex THEN
        { Fld(name, "prim", FALSE, kt, (kt = "uuid"), FALSE, tg, (hd \/ kt = "uuid"),
              IF hd \/ kt = "uuid" THEN SomeDefault(kt) ELSE NullV, NoSub) :
            kt \in KTypes \ {"records"}, tg \in {0, 3}, hd \in BOOLEAN }
        \cup { Fld(name, "prim", FALSE, kt, TRUE, FALSE, 1, TRUE, NullV, NoSub) : kt \in {"string", "bytes"} }
        \cup { Fld(name, "prim", TRUE, kt, FALSE, (kt = "uuid"), 2, TRUE, SeqV(<<>>), NoSub) :
                 kt \in {"int32", "string", "uuid"} }
        ELSE {})

StructMenu(name, flex) ==
  UNION { { Fld(name, "struct", FALSE, "", FALSE, FALSE, -1, FALSE, NullV, sub),
            Fld(name, "struct", FALSE, "", TRUE, FALSE, -1, FALSE, NullV, sub),
            Fld(name, "struct", TRUE, "", FALSE, FALSE, -1, FALSE, NullV, sub),
            Fld(name, "struct", TRUE, "", TRUE, FALSE, -1, FALSE, NullV, sub) }
          \cup (IF flex THEN
                 { Fld(name, "struct", FALSE, "", FALSE, FALSE, 4, FALSE, NullV, sub),
                   Fld(name, "struct", TRUE, "", FALSE, FALSE, 6, TRUE, SeqV(<<>>), sub) }
                ELSE {})
        : sub \in SubSchemas(flex) }

Menu(name, flex) == PrimMenu(name, flex) \cup StructMenu(name, flex)

\* second field: a reduced menu, chosen so that tag order / count / elision interact
Menu2(name, flex) ==
  { f \in Menu(name, flex) :
      \/ f.kind = "struct" /\ f.sub.fields[1].ktype # "int16"
      \/ f.kind = "prim" /\ f.ktype \in {"int16", "string", "uuid", "datetime_i64"} }

SchemasOf(fl) == { [name |-> "T", flex |-> fl, fields |-> <<f>>] : f \in Menu("f1", fl) }
Schemas2Of(fl) ==
  UNION { { [name |-> "T", flex |-> fl, fields |-> <<f, g>>] :
              g \in { h \in Menu2("f2", fl) : h.tag < 0 \/ h.tag # f.tag } }
          : f \in Menu("f1", fl) }

\* always included (also with MaxFields = 1): two tagged fields declared in descending / ascending
\* tag order and next to an untagged field - where tag ordering, the count and elision interact
TagPairSchemas ==
  { [name |-> "T", flex |-> TRUE,
     fields |-> <<Fld("f1", "prim", FALSE, k1, FALSE, FALSE, t1, TRUE, SomeDefault(k1), NoSub),
                  Fld("f2", "prim", FALSE, k2, FALSE, FALSE, t2, TRUE, SomeDefault(k2), NoSub),
                  Fld("f3", "prim", FALSE, "int8", FALSE, FALSE, -1, FALSE, NullV, NoSub)>>]
      : k1 \in {"int16", "string"}, k2 \in {"int32", "bool"}, t1 \in {0, 5}, t2 \in {1, 3} }

HeaderSchemas ==
  { [name |-> "RequestHeader", flex |-> fl,
     fields |-> <<Fld("request_api_key", "prim", FALSE, "int16", FALSE, FALSE, -1, FALSE, NullV, NoSub),
                  Fld("client_id", "prim", FALSE, "string", TRUE, FALSE, -1, FALSE, NullV, NoSub)>>]
      : fl \in BOOLEAN }

\* kio's documented/implemented subset (dispatch rows kio.serial does not implement are
\* left out; none of them occurs in Kafka 3.9.0):
\*  - nullable arrays only of element types that have a wire null themselves
\*  - a tagged field without explicit default needs an implicit default kio knows: not for
\*    bool, error_code, records; a nullable tagged field must have the explicit default null
\*  - a tagged struct without explicit default needs resolvable defaults for all nested fields
RECURSIVE KioSupportedField(_)
KioSupportedField(f) ==
  /\ (f.kind = "prim" /\ f.arr /\ f.nul) => f.ktype \in NullablePrims \cup {"uuid"}
  /\ (f.tag >= 0 /\ ~f.hasd) =>
        /\ ~f.nul /\ ~f.arr
        /\ f.kind = "prim" => f.ktype \notin {"bool", "error_code", "records", "uuid"}
        /\ f.kind = "struct" =>
              \A i \in 1..Len(f.sub.fields) :
                 LET g == f.sub.fields[i] IN g.hasd \/ (~g.nul /\ ~g.arr /\ KioSupportedField([g EXCEPT !.tag = 0]))
  /\ (f.tag >= 0 /\ f.nul) => (f.hasd /\ IsNull(f.dflt))
KioSupported(s) == \A i \in 1..Len(s.fields) : KioSupportedField(s.fields[i])

AllSchemas0 ==
  SchemasOf(TRUE) \cup SchemasOf(FALSE) \cup HeaderSchemas \cup TagPairSchemas
  \cup (IF MaxFields >= 2 THEN Schemas2Of(TRUE) \cup Schemas2Of(FALSE) ELSE {})

AllSchemas == { s \in AllSchemas0 : KioSupported(s) }

ValuesOf(s) ==
  IF Len(s.fields) = 3 THEN
    {RecV(<<a, b, c>>) : a \in {DefaultOf(s.fields[1]), CHOOSE x \in FieldVals(s.fields[1]) : x # DefaultOf(s.fields[1])},
                          b \in {DefaultOf(s.fields[2]), CHOOSE x \in FieldVals(s.fields[2]) : x # DefaultOf(s.fields[2])},
                          c \in {IntV(0), IntV(-128)}}
  ELSE IF Len(s.fields) = 1 THEN {RecV(<<a>>) : a \in FieldVals(s.fields[1])}
  ELSE {RecV(<<a, b>>) : a \in FieldVals(s.fields[1]), b \in FieldVals(s.fields[2])}

\* variants of conforming encodings (C03): explicit defaults, unknown tags below /
\* between / above the known ones with payload sizes 0, 1, 3
Variants ==
  { [expl |-> e, unk |-> u] :
      e \in {0, 1, 2},
      u \in { <<>>,
              <<[tag |-> 1, data |-> <<>>]>>,
              <<[tag |-> 7, data |-> <<9>>]>>,
              <<[tag |-> 2, data |-> <<1, 2, 3>>], [tag |-> 200, data |-> <<255>>]>> } }
=============================================================================
