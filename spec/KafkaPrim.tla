----------------------------- MODULE KafkaPrim -----------------------------
(***************************************************************************)
(* The Kafka primitive encodings, written from the protocol guide          *)
(* (https://kafka.apache.org/protocol#protocol_types) and KIP-482, as      *)
(* operators over bit vectors (module Bits) and byte sequences.            *)
(*                                                                         *)
(* VALUES.  Every value, here and at the JSON boundary, is a ONE-FIELD      *)
(* record whose field NAME is the kind of the value:                       *)
(*   [null |-> 0]                                                          *)
(*   [int  |-> n]           -2^30 <= n < 2^30 (canonical small integers)   *)
(*   [bits |-> BitVec]      every other integer                            *)
(*   [blob |-> Seq(0..255)] strings (UTF-8), bytes, uuids                  *)
(*   [f64  |-> <<sign, biasedExp, mant52>>]                                *)
(*   [seq  |-> Seq(value)]  arrays                                         *)
(*   [rec  |-> Seq(value)]  structs, positional                            *)
(* TLC refuses to compare values of different shapes (1 = <<>> is an       *)
(* error, not FALSE), but two records are compared by field names first    *)
(* and payloads only when the names agree - so values of different kinds   *)
(* compare FALSE without an error, and sets may mix kinds.  (A two-field   *)
(* [k, v] encoding is NOT safe: TLC orders record fields by the order in   *)
(* which the names were first interned, not alphabetically.)               *)
(* Decoders return [ok, err, val, pos] with pos = bytes consumed so far.   *)
(***************************************************************************)
EXTENDS Bits, SequencesExt, Functions

NullV == [null |-> 0]
IntV(n) == [int |-> n]
BitsV(b) == [bits |-> b]
BlobV(bs) == [blob |-> bs]
SeqV(xs) == [seq |-> xs]
RecV(xs) == [rec |-> xs]
F64V(t) == [f64 |-> t]
K(x) == CHOOSE kk \in DOMAIN x : TRUE        \* the kind of a value
V(x) == x[K(x)]                              \* its payload
IsNull(x) == K(x) = "null"

\* canonical integer value of a bit vector
Canon(b) == IF FitsS(b, 31) THEN IntV(BitsToInt(b)) ELSE BitsV(b)
ValBits(x) == IF K(x) = "int" THEN IntBits(x.int) ELSE x.bits

Ok(val, pos) == [ok |-> TRUE, err |-> "", val |-> val, pos |-> pos]
Err(e, pos) == [ok |-> FALSE, err |-> e, val |-> NullV, pos |-> pos]

\* ---- fixed width ---------------------------------------------------------
\* n-byte big-endian two's complement of the low 8n bits
BE(b, n) == [j \in 1..n |-> ByteOf(b, 8 * (n - j))]

FromBE(bs, signed) ==
  LET n == Len(bs)
      bit(i) == BitOfByte(bs[n - ((i-1) \div 8)], (i-1) % 8)
  IN [i \in 1..W |-> IF i <= 8*n THEN bit(i)
                     ELSE IF signed THEN bit(8*n) ELSE 0]

DecFixed(bs, pos, n, signed) ==
  IF pos + n > Len(bs) THEN Err("underflow", pos)
  ELSE Ok(Canon(FromBE(SubSeq(bs, pos+1, pos+n), signed)), pos + n)

\* ---- varints -------------------------------------------------------------
MaxVarintBytes == 5
MaxVarlongBytes == 10

\* minimal-length base-128, little-endian groups, continuation bit 0x80
UVar(b) ==
  LET t == TopBit(b)
      n == IF t = 0 THEN 1 ELSE ((t-1) \div 7) + 1
  IN [g \in 1..n |-> Group7(b, 7*(g-1)) + (IF g < n THEN 128 ELSE 0)]

UVarNat(n) == UVar(NatBits(n))

\* zig-zag of a w-bit signed value: (v << 1) XOR (v >> (w-1))
ZigZag(b, w) == Trunc(BXor(Shl1(b), SignFill(b)), w)
Lsr1(z) == [i \in 1..W |-> IF i = W THEN 0 ELSE z[i+1]]
UnZigZag(z) == BXor(Lsr1(z), IF z[1] = 1 THEN BNot(Zero) ELSE Zero)

SVar(b) == UVar(ZigZag(b, 32))
SVarLong(b) == UVar(ZigZag(b, 64))

\* number of bytes of the varint at pos: -1 underflow, 0 too long
VarLen(bs, pos, maxb) ==
  LET RECURSIVE scan(_)
      scan(j) == IF j > maxb THEN 0
                 ELSE IF pos + j > Len(bs) THEN -1
                 ELSE IF bs[pos+j] < 128 THEN j ELSE scan(j+1)
  IN scan(1)

\* returns the raw bit vector in val (not a tagged value)
DecUVarBits(bs, pos, maxb) ==
  LET n == VarLen(bs, pos, maxb) IN
  IF n = -1 THEN [ok |-> FALSE, err |-> "underflow", val |-> Zero, pos |-> Len(bs)]
  ELSE IF n = 0 THEN [ok |-> FALSE, err |-> "value_error", val |-> Zero, pos |-> pos + maxb]
  ELSE [ok |-> TRUE, err |-> "",
        val |-> [i \in 1..W |-> LET g == (i-1) \div 7 IN
                    IF g < n THEN BitOfByte(bs[pos+g+1], (i-1) % 7) ELSE 0],
        pos |-> pos + n]

\* ---- booleans, floats, uuids --------------------------------------------
EncBool(x) == <<x.int>>                        \* 0 or 1

\* IEEE-754 binary64 from (sign, biased exponent, 52-bit mantissa LSB first)
ExpBits(e) == [i \in 1..11 |-> (e \div (2^(i-1))) % 2]
F64Bytes(t) ==
  LET bits == t[3] \o ExpBits(t[2]) \o <<t[1]>>      \* 64 bits, LSB first
  IN [j \in 1..8 |-> ByteOf(bits, 8 * (8 - j))]
F64OfBytes(bs) ==
  LET bit(i) == BitOfByte(bs[8 - ((i-1) \div 8)], (i-1) % 8)
      e == LET RECURSIVE acc(_)
               acc(i) == IF i = 0 THEN 0 ELSE bit(52+i) * (2^(i-1)) + acc(i-1)
           IN acc(11)
  IN F64V(<<bit(64), e, [i \in 1..52 |-> bit(i)]>>)
F64IsFinite(x) == x.f64[2] # 2047

ZeroUuid == [i \in 1..16 |-> 0]
EncUuid(x) == IF IsNull(x) THEN ZeroUuid ELSE x.blob

\* ---- UTF-8 validity (RFC 3629: no overlongs, no surrogates, <= U+10FFFF) --
\* state: <<continuation bytes still due, lo, hi of the next byte>>; <<-1,..>> = dead
Utf8Step(st, c) ==
  IF st[1] = -1 THEN st
  ELSE IF st[1] > 0 THEN
    IF c >= st[2] /\ c <= st[3] THEN <<st[1]-1, 128, 191>> ELSE <<-1, 0, 0>>
  ELSE IF c < 128 THEN <<0, 0, 0>>
  ELSE IF c >= 194 /\ c <= 223 THEN <<1, 128, 191>>
  ELSE IF c = 224 THEN <<2, 160, 191>>
  ELSE IF (c >= 225 /\ c <= 236) \/ c = 238 \/ c = 239 THEN <<2, 128, 191>>
  ELSE IF c = 237 THEN <<2, 128, 159>>
  ELSE IF c = 240 THEN <<3, 144, 191>>
  ELSE IF c >= 241 /\ c <= 243 THEN <<3, 128, 191>>
  ELSE IF c = 244 THEN <<3, 128, 143>>
  ELSE <<-1, 0, 0>>
ValidUtf8(bs) == FoldLeft(Utf8Step, <<0, 0, 0>>, bs)[1] = 0

\* ---- length-prefixed forms ----------------------------------------------
MaxStringLen == 32767          \* Kafka limits strings to Short.MAX_VALUE bytes in both forms

LegacyString(x) ==            \* int16 length, -1 for null
  IF IsNull(x) THEN BE(IntBits(-1), 2) ELSE BE(NatBits(Len(x.blob)), 2) \o x.blob
LegacyBytes(x) ==             \* int32 length, -1 for null
  IF IsNull(x) THEN BE(IntBits(-1), 4) ELSE BE(NatBits(Len(x.blob)), 4) \o x.blob
CompactBlob(x) ==             \* unsigned varint of length+1, 0 for null
  IF IsNull(x) THEN <<0>> ELSE UVarNat(Len(x.blob) + 1) \o x.blob

LegacyArrayLen(n) == BE(IntBits(n), 4)           \* n = -1 for null
CompactArrayLen(n) == UVarNat(n + 1)

\* a length read from the wire as a native int; lengths TLC cannot hold are mapped to
\* values just outside the native range, which behave like any other impossible length
LenOfBits(b) == IF FitsS(b, 31) THEN BitsToInt(b)
                ELSE IF Sign(b) = 1 THEN -(2^30) - 1 ELSE 2^30

\* shared tail of all blob decoders: len = -1 null, < -1 invalid
DecBlobTail(bs, pos, len, nullable, isString) ==
  IF len = -1 THEN (IF nullable THEN Ok(NullV, pos) ELSE Err("unexpected_null", pos))
  ELSE IF len < 0 THEN Err("underflow", Len(bs))      \* negative size: reads to EOF, then short
  ELSE IF pos + len > Len(bs) THEN Err("underflow", Len(bs))
  ELSE LET body == SubSeq(bs, pos+1, pos+len) IN
       IF isString /\ ~ValidUtf8(body) THEN Err("value_error", pos + len)
       ELSE Ok(BlobV(body), pos + len)

DecLegacyString(bs, pos, nullable) ==
  LET h == DecFixed(bs, pos, 2, TRUE) IN
  IF ~h.ok THEN h ELSE DecBlobTail(bs, h.pos, h.val.int, nullable, TRUE)

DecLegacyBytes(bs, pos, nullable) ==
  LET h == DecFixed(bs, pos, 4, TRUE) IN
  IF ~h.ok THEN h ELSE DecBlobTail(bs, h.pos, LenOfBits(ValBits(h.val)), nullable, FALSE)

DecCompactBlob(bs, pos, nullable, isString) ==
  LET h == DecUVarBits(bs, pos, MaxVarintBytes) IN
  IF ~h.ok THEN Err(h.err, h.pos)
  ELSE DecBlobTail(bs, h.pos, LenOfBits(h.val) - 1, nullable, isString)

\* ---- type domains (PrimTypes) -------------------------------------------
IntWidth(kt) ==
  CASE kt = "int8" -> 1 [] kt = "int16" -> 2 [] kt = "int32" -> 4 [] kt = "int64" -> 8
    [] kt = "uint8" -> 1 [] kt = "uint16" -> 2 [] kt = "uint32" -> 4 [] kt = "uint64" -> 8
    [] kt = "error_code" -> 2 [] kt = "timedelta_i32" -> 4
    [] kt = "timedelta_i64" -> 8 [] kt = "datetime_i64" -> 8
IsSignedK(kt) == kt \notin {"uint8", "uint16", "uint32", "uint64"}
IntKinds == {"int8", "int16", "int32", "int64", "uint8", "uint16", "uint32", "uint64",
             "error_code", "timedelta_i32", "timedelta_i64", "datetime_i64"}

InDomain(kt, b) ==
  IF IsSignedK(kt) THEN FitsS(b, 8 * IntWidth(kt)) ELSE FitsU(b, 8 * IntWidth(kt))
=============================================================================
