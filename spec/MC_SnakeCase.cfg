SPECIFICATION Spec
CONSTANT MaxLen = 5
INVARIANT NoDoubleUnderscore
INVARIANT NoLeadingOrTrailingUnderscore
INVARIANT LettersPreserved
INVARIANT Emit
CHECK_DEADLOCK FALSE
