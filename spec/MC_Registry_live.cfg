SPECIFICATION LiveSpec
CONSTANTS
  Threads = {1, 2}
  MaxOps = 1
  Scratch = "private"
  Evicting = FALSE
  Vals = {1}
  StartKinds = {"w"}
  StartClasses = {"A"}
PROPERTY CallsTerminate
CHECK_DEADLOCK FALSE
