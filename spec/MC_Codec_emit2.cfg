SPECIFICATION Spec
CONSTANTS
  MaxFields = 2
  Rich = FALSE
  Emit = TRUE
INVARIANT EmitInv
CHECK_DEADLOCK FALSE
