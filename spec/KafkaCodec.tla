----------------------------- MODULE KafkaCodec -----------------------------
(***************************************************************************)
(* Definitional Kafka message codec: Enc(schema, value) is THE byte string *)
(* the protocol prescribes, Dec(schema, bytes, pos) THE strict decoder.    *)
(* Written from the protocol guide, KIP-482 (tagged fields), KIP-893       *)
(* (nullable structs) and Kafka's RequestHeader.json, not from kio.        *)
(*                                                                         *)
(* A struct schema is [name, flex, fields]; a field is                     *)
(*   [name, kind \in {"prim","struct"}, arr, ktype, nul, inul, tag (-1 =   *)
(*    untagged), hasd, dflt, sub (nested schema, meaningful for structs)]. *)
(* Values are the one-field records described in KafkaPrim; a struct value *)
(* is [rec |-> <<one value per field, in declaration order>>].             *)
(*                                                                         *)
(* A *variant* [expl, unk] selects among the conforming encodings of one   *)
(* value: expl = 0 elide default-valued tagged fields (canonical, what a   *)
(* Kafka peer does), 1 send all of them explicitly, 2 send the odd-        *)
(* positioned ones; unk = unknown tagged fields <<[tag, data]>> added at   *)
(* EVERY flexible struct of the message (those colliding with a tag the    *)
(* struct knows are dropped there).                                        *)
(***************************************************************************)
EXTENDS KafkaPrim, TLC

CanonVar == [expl |-> 0, unk |-> <<>>]

\* ---- Kafka's rules (KafkaRules) -----------------------------------------
ErrorCodeMin == -1
ErrorCodeMax == 127            \* Kafka 3.9.0 Errors.java: UNKNOWN_SERVER_ERROR .. 127

\* RequestHeader.client_id is a legacy nullable string in every header version
IsClientId(s, f) == s.name = "RequestHeader" /\ f.name = "client_id"
FieldFlex(s, f) == IF IsClientId(s, f) THEN FALSE ELSE s.flex

NullableStructNull == 255      \* int8 -1
NullableStructPresent == 1

TaggedIdx(s) ==               \* indices of tagged fields in ascending tag order
  SortSeq(SelectSeq([i \in 1..Len(s.fields) |-> i], LAMBDA i : s.fields[i].tag >= 0),
          LAMBDA a, b : s.fields[a].tag < s.fields[b].tag)
UntaggedIdx(s) == SelectSeq([i \in 1..Len(s.fields) |-> i], LAMBDA i : s.fields[i].tag < 0)
KnownTags(s) == {s.fields[i].tag : i \in {j \in 1..Len(s.fields) : s.fields[j].tag >= 0}}

\* implicit default of a tagged field that has no explicit default
ZeroOf(kt) ==
  CASE kt \in {"string", "bytes"} -> BlobV(<<>>)
    [] kt = "records" -> NullV
    [] kt = "uuid" -> NullV                   \* the all-zero UUID is kio's None
    [] kt = "float64" -> F64V(<<0, 0, [i \in 1..52 |-> 0]>>)
    [] OTHER -> IntV(0)

RECURSIVE DefaultOf(_)
DefaultOf(f) ==
  IF f.hasd THEN f.dflt
  ELSE IF f.arr THEN SeqV(<<>>)
  ELSE IF f.nul THEN NullV
  ELSE IF f.kind = "prim" THEN ZeroOf(f.ktype)
  ELSE RecV([i \in 1..Len(f.sub.fields) |-> DefaultOf(f.sub.fields[i])])

\* ---- encoder --------------------------------------------------------------
EncPrim(kt, flex, x) ==
  CASE kt \in {"int8", "uint8"} -> BE(ValBits(x), 1)
    [] kt \in {"int16", "uint16", "error_code"} -> BE(ValBits(x), 2)
    [] kt \in {"int32", "uint32", "timedelta_i32"} -> BE(ValBits(x), 4)
    [] kt \in {"int64", "uint64", "timedelta_i64"} -> BE(ValBits(x), 8)
    [] kt = "datetime_i64" -> IF IsNull(x) THEN BE(IntBits(-1), 8) ELSE BE(ValBits(x), 8)
    [] kt = "bool" -> EncBool(x)
    [] kt = "float64" -> F64Bytes(x.f64)
    [] kt = "uuid" -> EncUuid(x)
    [] kt = "string" -> IF flex THEN CompactBlob(x) ELSE LegacyString(x)
    [] kt \in {"bytes", "records"} -> IF flex THEN CompactBlob(x) ELSE LegacyBytes(x)

ArrLen(flex, n) == IF flex THEN CompactArrayLen(n) ELSE LegacyArrayLen(n)

RECURSIVE EncStructV(_, _, _), EncFieldV(_, _, _, _, _)

\* one element: a primitive or a struct body (no null marker)
EncItemV(s, f, x, var) ==
  IF f.kind = "prim" THEN EncPrim(f.ktype, FieldFlex(s, f), x)
  ELSE EncStructV(f.sub, x, var)

\* a field in its position (tagged = TRUE: as the payload of a tagged field)
EncFieldV(s, f, x, tagged, var) ==
  IF f.arr THEN
    IF IsNull(x) THEN ArrLen(FieldFlex(s, f), -1)
    ELSE ArrLen(FieldFlex(s, f), Len(x.seq))
         \o Flatten([i \in 1..Len(x.seq) |-> EncItemV(s, f, x.seq[i], var)])
  ELSE IF f.kind = "struct" /\ f.nul THEN
    IF IsNull(x) THEN <<NullableStructNull>>
    ELSE <<NullableStructPresent>> \o EncStructV(f.sub, x, var)
  ELSE EncItemV(s, f, x, var)

TagEntries(s, v, var) ==
  LET T == TaggedIdx(s)
      sendIt(j) == \/ v.rec[T[j]] # DefaultOf(s.fields[T[j]])
                   \/ var.expl = 1
                   \/ (var.expl = 2 /\ j % 2 = 1)
      known == [j \in 1..Len(T) |->
                  [tag |-> s.fields[T[j]].tag, send |-> sendIt(j),
                   data |-> IF sendIt(j) THEN EncFieldV(s, s.fields[T[j]], v.rec[T[j]], TRUE, var)
                            ELSE <<>>]]
      unk == [j \in 1..Len(var.unk) |->
                  [tag |-> var.unk[j].tag, send |-> var.unk[j].tag \notin KnownTags(s),
                   data |-> var.unk[j].data]]
  IN SortSeq(SelectSeq(known \o unk, LAMBDA e : e.send), LAMBDA a, b : a.tag < b.tag)

TagSection(s, v, var) ==
  LET E == TagEntries(s, v, var) IN
  UVarNat(Len(E))
  \o Flatten([j \in 1..Len(E) |-> UVarNat(E[j].tag) \o UVarNat(Len(E[j].data)) \o E[j].data])

EncStructV(s, v, var) ==
  LET U == UntaggedIdx(s)
      body == Flatten([j \in 1..Len(U) |-> EncFieldV(s, s.fields[U[j]], v.rec[U[j]], FALSE, var)])
  IN IF s.flex THEN body \o TagSection(s, v, var) ELSE body

Enc(s, v) == EncStructV(s, v, CanonVar)

\* ---- well-typedness (the domain of Enc) -----------------------------------
WellTypedPrim(kt, x) ==
  CASE kt \in IntKinds \ {"datetime_i64"} ->
         K(x) \in {"int", "bits"} /\ InDomain(kt, ValBits(x))
           /\ (kt = "error_code" =>
                 K(x) = "int" /\ x.int >= ErrorCodeMin /\ x.int <= ErrorCodeMax)
    [] kt = "datetime_i64" -> K(x) \in {"int", "bits"} /\ FitsS(ValBits(x), 64) /\ Sign(ValBits(x)) = 0
    [] kt = "bool" -> K(x) = "int" /\ x.int \in {0, 1}
    [] kt = "float64" -> K(x) = "f64"        \* any bit pattern is a wire value; kio's f64 TYPE admits finite ones only
    [] kt = "uuid" -> K(x) = "blob" /\ Len(x.blob) = 16 /\ x.blob # ZeroUuid
    [] kt = "string" -> K(x) = "blob" /\ ValidUtf8(x.blob)
    [] kt \in {"bytes", "records"} -> K(x) = "blob"

RECURSIVE WellTyped(_, _)
WellTypedItem(s, f, x, nullok) ==
  IF IsNull(x) THEN nullok
  ELSE IF f.kind = "prim" THEN
       WellTypedPrim(f.ktype, x)
       /\ (f.ktype = "string" => Len(x.blob) <= MaxStringLen)
  ELSE WellTyped(f.sub, x)
WellTyped(s, v) ==
  /\ K(v) = "rec" /\ Len(v.rec) = Len(s.fields)
  /\ \A i \in 1..Len(s.fields) :
       LET f == s.fields[i] x == v.rec[i] IN
       IF f.arr THEN
         IF IsNull(x) THEN f.nul
         ELSE K(x) = "seq" /\ \A j \in 1..Len(x.seq) : WellTypedItem(s, f, x.seq[j], f.inul)
       ELSE WellTypedItem(s, f, x, f.nul \/ IsClientId(s, f))

\* ---- strict decoder -------------------------------------------------------
DecPrim(kt, flex, nul, bs, pos) ==
  CASE kt \in IntKinds \ {"datetime_i64", "error_code"} ->
         DecFixed(bs, pos, IntWidth(kt), IsSignedK(kt))
    [] kt = "error_code" ->
         LET r == DecFixed(bs, pos, 2, TRUE) IN
         IF ~r.ok THEN r
         ELSE IF r.val.int < ErrorCodeMin \/ r.val.int > ErrorCodeMax THEN Err("value_error", r.pos)
         ELSE r
    [] kt = "datetime_i64" ->
         LET r == DecFixed(bs, pos, 8, TRUE) IN
         IF ~r.ok THEN r
         ELSE IF r.val = IntV(-1) THEN (IF nul THEN Ok(NullV, r.pos) ELSE Err("value_error", r.pos))
         ELSE IF Sign(ValBits(r.val)) = 1 THEN Err("value_error", r.pos)
         ELSE r
    [] kt = "bool" ->
         IF pos + 1 > Len(bs) THEN Err("underflow", pos)
         ELSE Ok(IntV(IF bs[pos+1] = 0 THEN 0 ELSE 1), pos + 1)
    [] kt = "float64" ->
         IF pos + 8 > Len(bs) THEN Err("underflow", pos)
         ELSE Ok(F64OfBytes(SubSeq(bs, pos+1, pos+8)), pos + 8)
    [] kt = "uuid" ->
         IF pos + 16 > Len(bs) THEN Err("underflow", pos)
         ELSE LET u == SubSeq(bs, pos+1, pos+16) IN
              Ok(IF u = ZeroUuid THEN NullV ELSE BlobV(u), pos + 16)
    [] kt = "string" ->
         IF flex THEN DecCompactBlob(bs, pos, nul, TRUE) ELSE DecLegacyString(bs, pos, nul)
    [] kt \in {"bytes", "records"} ->
         IF flex THEN DecCompactBlob(bs, pos, nul, FALSE) ELSE DecLegacyBytes(bs, pos, nul)

DecArrLen(flex, bs, pos) ==          \* val is a native int: -1 null, < -1 invalid
  IF flex THEN
    LET h == DecUVarBits(bs, pos, MaxVarintBytes) IN
    IF ~h.ok THEN Err(h.err, h.pos) ELSE Ok(IntV(LenOfBits(h.val) - 1), h.pos)
  ELSE
    LET h == DecFixed(bs, pos, 4, TRUE) IN
    IF ~h.ok THEN h ELSE Ok(IntV(LenOfBits(ValBits(h.val))), h.pos)

RECURSIVE DecStruct(_, _, _), DecField(_, _, _, _, _)

DecItem(s, f, nul, bs, pos) ==
  IF f.kind = "prim" THEN DecPrim(f.ktype, FieldFlex(s, f), nul, bs, pos)
  ELSE DecStruct(f.sub, bs, pos)

DecField(s, f, bs, pos, tagged) ==
  IF f.arr THEN
    LET h == DecArrLen(FieldFlex(s, f), bs, pos) IN
    IF ~h.ok THEN h
    ELSE IF h.val.int = -1 THEN (IF f.nul THEN Ok(NullV, h.pos) ELSE Err("unexpected_null", h.pos))
    ELSE IF h.val.int < -1 THEN Err("value_error", h.pos)
    ELSE LET RECURSIVE items(_, _, _)
             items(k, p, acc) ==
               IF k = 0 THEN Ok(SeqV(acc), p)
               ELSE LET r == DecItem(s, f, f.inul, bs, p) IN
                    IF ~r.ok THEN r ELSE items(k - 1, r.pos, Append(acc, r.val))
         IN items(h.val.int, h.pos, <<>>)
  ELSE IF f.kind = "struct" /\ f.nul THEN
    IF pos + 1 > Len(bs) THEN Err("underflow", pos)
    ELSE IF bs[pos+1] = NullableStructNull THEN Ok(NullV, pos + 1)
    ELSE IF bs[pos+1] = NullableStructPresent THEN DecStruct(f.sub, bs, pos + 1)
    ELSE Err("value_error", pos + 1)
  ELSE DecItem(s, f, (f.nul \/ IsClientId(s, f)), bs, pos)

\* the tagged section: returns val = function fieldIndex -> value for the tags seen
DecTagSection(s, bs, pos) ==
  LET cnt == DecUVarBits(bs, pos, MaxVarintBytes)
      idxOf(t) == CHOOSE i \in 1..Len(s.fields) : s.fields[i].tag = t
      RECURSIVE loop(_, _, _, _)
      loop(k, p, last, seen) ==
        IF k = 0 THEN [ok |-> TRUE, err |-> "", val |-> seen, pos |-> p]
        ELSE LET t == DecUVarBits(bs, p, MaxVarintBytes) IN
          IF ~t.ok THEN [ok |-> FALSE, err |-> t.err, val |-> seen, pos |-> t.pos]
          ELSE LET z == DecUVarBits(bs, t.pos, MaxVarintBytes) IN
          IF ~z.ok THEN [ok |-> FALSE, err |-> z.err, val |-> seen, pos |-> z.pos]
          ELSE LET tag == LenOfBits(t.val) size == LenOfBits(z.val) IN
          IF tag < 0 \/ tag <= last THEN
               [ok |-> FALSE, err |-> "value_error", val |-> seen, pos |-> z.pos]
          ELSE IF size < 0 \/ z.pos + size > Len(bs) THEN
               [ok |-> FALSE, err |-> "underflow", val |-> seen, pos |-> Len(bs)]
          ELSE IF tag \in KnownTags(s) THEN
               LET i == idxOf(tag)
                   r == DecField(s, s.fields[i], bs, z.pos, TRUE) IN
               IF ~r.ok THEN [ok |-> FALSE, err |-> r.err, val |-> seen, pos |-> r.pos]
               ELSE IF r.pos # z.pos + size THEN
                    [ok |-> FALSE, err |-> "value_error", val |-> seen, pos |-> r.pos]
               ELSE loop(k - 1, r.pos, tag, (i :> r.val) @@ seen)
          ELSE loop(k - 1, z.pos + size, tag, seen)      \* unknown tag: skip by size
  IN IF ~cnt.ok THEN [ok |-> FALSE, err |-> cnt.err, val |-> <<>>, pos |-> cnt.pos]
     ELSE loop(LenOfBits(cnt.val), cnt.pos, -1, <<>>)

DecStruct(s, bs, pos) ==
  LET U == UntaggedIdx(s)
      RECURSIVE body(_, _, _)
      body(j, p, acc) ==        \* acc: function fieldIndex -> value
        IF j > Len(U) THEN [ok |-> TRUE, err |-> "", val |-> acc, pos |-> p]
        ELSE LET r == DecField(s, s.fields[U[j]], bs, p, FALSE) IN
             IF ~r.ok THEN [ok |-> FALSE, err |-> r.err, val |-> acc, pos |-> r.pos]
             ELSE body(j + 1, r.pos, (U[j] :> r.val) @@ acc)
      b == body(1, pos, <<>>)
  IN IF ~b.ok THEN Err(b.err, b.pos)
     ELSE IF ~s.flex THEN
       Ok(RecV([i \in 1..Len(s.fields) |-> b.val[i]]), b.pos)
     ELSE LET t == DecTagSection(s, bs, b.pos) IN
       IF ~t.ok THEN Err(t.err, t.pos)
       ELSE Ok(RecV([i \in 1..Len(s.fields) |->
                         IF i \in DOMAIN b.val THEN b.val[i]
                         ELSE IF i \in DOMAIN t.val THEN t.val[i]
                         ELSE DefaultOf(s.fields[i])]), t.pos)

Dec(s, bs) == DecStruct(s, bs, 0)
=============================================================================
