SPECIFICATION Spec
CONSTANTS
  NReq = 3
  MaxInFlight = 2
  Sizes <- SizesDef
INVARIANT Matched
INVARIANT BrokerSeesRequests
PROPERTY AllAnswered
CHECK_DEADLOCK FALSE
