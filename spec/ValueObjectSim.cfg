SPECIFICATION SimSpec
CONSTANTS
  MaxObjs = 6
  Vals = {1, 2}
  MaxNew = 2
INVARIANT Export
CHECK_DEADLOCK FALSE
