------------------------------ MODULE Connection ------------------------------
(***************************************************************************)
(* The documented way of talking to a broker (docs/pages/usage.rst): on    *)
(* one connection the client sends frames  int32 size | request header |   *)
(* request payload  and the broker answers, in request order, with frames  *)
(* int32 size | response header | response payload , the response header   *)
(* echoing the correlation id.  Frames are abstracted to <<corr, kind>>    *)
(* tokens preceded by their size; what the model is about is framing and   *)
(* matching: the reader consumes exactly `size` tokens per frame, answers  *)
(* arrive in order, and every answer is delivered to the request with the  *)
(* same correlation id.  The client may pipeline up to MaxInFlight         *)
(* requests.                                                               *)
(***************************************************************************)
EXTENDS Naturals, Sequences, FiniteSets, TLC

CONSTANTS NReq, MaxInFlight, Sizes      \* Sizes: function request index -> <<request size, response size>>

Frame(i, kind) == <<[size |-> Sizes[i][IF kind = "req" THEN 1 ELSE 2], corr |-> i]>>
                  \o [j \in 1..Sizes[i][IF kind = "req" THEN 1 ELSE 2] |-> <<i, kind, j>>]

VARIABLES c2b, b2c,       \* the two byte streams (what has been written and not yet consumed)
          sent,           \* number of requests the client has written
          inflight,       \* correlation ids awaiting an answer, in send order
          bgot,           \* requests the broker has fully read, in order
          answered,       \* number of responses the broker has written
          delivered       \* <<request index, response tokens>> handed to the application
vars == <<c2b, b2c, sent, inflight, bgot, answered, delivered>>

Init == c2b = <<>> /\ b2c = <<>> /\ sent = 0 /\ inflight = <<>> /\ bgot = <<>> /\ answered = 0 /\ delivered = <<>>

Send == /\ sent < NReq /\ Len(inflight) < MaxInFlight
        /\ c2b' = c2b \o Frame(sent + 1, "req") /\ sent' = sent + 1 /\ inflight' = Append(inflight, sent + 1)
        /\ UNCHANGED <<b2c, bgot, answered, delivered>>

\* the broker reads one whole frame: the size, then exactly that many tokens
BrokerRead ==
  /\ c2b # <<>> /\ Len(c2b) >= 1 + c2b[1].size
  /\ bgot' = Append(bgot, <<c2b[1].corr, SubSeq(c2b, 2, 1 + c2b[1].size)>>)
  /\ c2b' = SubSeq(c2b, 2 + c2b[1].size, Len(c2b))
  /\ UNCHANGED <<b2c, sent, inflight, answered, delivered>>

BrokerAnswer ==
  /\ answered < Len(bgot)
  /\ b2c' = b2c \o Frame(bgot[answered + 1][1], "resp") /\ answered' = answered + 1
  /\ UNCHANGED <<c2b, sent, inflight, bgot, delivered>>

ClientRead ==
  /\ b2c # <<>> /\ Len(b2c) >= 1 + b2c[1].size /\ inflight # <<>>
  /\ LET body == SubSeq(b2c, 2, 1 + b2c[1].size) IN
     /\ b2c[1].corr = Head(inflight)              \* the documented assert: the header echoes the id
     /\ delivered' = Append(delivered, <<Head(inflight), body>>)
     /\ b2c' = SubSeq(b2c, 2 + b2c[1].size, Len(b2c))
  /\ inflight' = Tail(inflight) /\ UNCHANGED <<c2b, sent, bgot, answered>>

Next == Send \/ BrokerRead \/ BrokerAnswer \/ ClientRead
Spec == Init /\ [][Next]_vars /\ WF_vars(Next)

\* ---- properties ----------------------------------------------------------------
\* every delivered answer belongs to the request it was delivered to, and is whole
Matched == \A k \in 1..Len(delivered) :
             LET i == delivered[k][1] body == delivered[k][2] IN
             /\ i = k
             /\ body = [j \in 1..Sizes[i][2] |-> <<i, "resp", j>>]
\* the broker sees the requests whole and in order
BrokerSeesRequests == \A k \in 1..Len(bgot) : bgot[k] = <<k, [j \in 1..Sizes[k][1] |-> <<k, "req", j>>]>>
\* a stream always starts on a frame boundary
OnFrameBoundary == (c2b # <<>> => "size" \in DOMAIN c2b[1]) /\ (b2c # <<>> => "size" \in DOMAIN b2c[1])
AllAnswered == <>(Len(delivered) = NReq)
=============================================================================
