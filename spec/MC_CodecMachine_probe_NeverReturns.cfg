SPECIFICATION Spec
CONSTANTS
  MaxLen = 4
  MaxFields = 1
  Rich = FALSE
INVARIANT NeverReturns
CHECK_DEADLOCK FALSE
