SPECIFICATION Spec
CONSTANTS
  MaxObjs = 3
  Vals = {1, 2}
  MaxNew = 2
INVARIANT MutatorsAlwaysRejected
INVARIANT DerivationsAreNewAndEqual
INVARIANT ReplaceIsSpecified
INVARIANT EqIsFieldwise
PROPERTY Immutable
CHECK_DEADLOCK FALSE
