--------------------------- MODULE ConnectionTrace ---------------------------
(***************************************************************************)
(* Trace validation of the documented request/response recipe              *)
(* (docs/pages/usage.rst, synchronous variant) run against a broker that   *)
(* is played by the harness with bytes produced by the specification.      *)
(* For every exchange on one connection:                                   *)
(*   - what the client put on the wire is  int32 size | Enc(request        *)
(*     header) | Enc(request) , the header carrying the API key and        *)
(*     version of the request class and the chosen correlation id, in the  *)
(*     header schema Kafka prescribes for that request;                    *)
(*   - the response class the library resolved is the paired one;          *)
(*   - the client decoded exactly the values the broker sent (a conforming *)
(*     variant: explicit defaults, unknown tagged fields), consumed the    *)
(*     whole frame and nothing else.                                       *)
(***************************************************************************)
EXTENDS TraceIO, Json, IOUtils, TLCExt

Data == JsonDeserialize(IOEnv.KIO_TRACE_FILE)
Schemas == Data.schemas
Cases == Data.cases
N == Len(Cases)

BE32(n) == BE(NatBits(n), 4)

ExchangeFails(x) ==
  LET hs == Schemas[x.hdr_sid] rs == Schemas[x.req_sid]
      hv == ExpandV(x.hdr_value) rv == ExpandV(x.req_value)
      msg == Enc(hs, hv) \o Enc(rs, rv)
      want == BE32(Len(msg)) \o msg
      ps == Schemas[x.resp_sid] phs == Schemas[x.resp_hdr_sid]
      pmsg == EncStructV(phs, ExpandV(x.resp_hdr_value), x.var) \o EncStructV(ps, ExpandV(x.resp_value), x.var)
      pframe == BE32(Len(pmsg)) \o pmsg IN
     (IF x.out = "ok" THEN {} ELSE {"recipe_raised"})
  \cup (IF Bytes(x.sent) = want THEN {} ELSE {"request_frame_differs"})
  \cup (IF Bytes(x.broker_frame) = pframe THEN {} ELSE {"harness_input_mismatch"})
  \cup (IF x.resolved_sid = x.resp_sid THEN {} ELSE {"library_resolved_wrong_response_class"})
  \cup (IF x.out = "ok" /\ (ExpandV(x.got_hdr) # ExpandV(x.resp_hdr_value) \/ ExpandV(x.got_value) # ExpandV(x.resp_value))
        THEN {"response_decoded_wrongly"} ELSE {})
  \cup (IF x.out = "ok" /\ x.leftover # 0 THEN {"response_frame_not_consumed_exactly"} ELSE {})
  \* the request header is what Kafka prescribes for this request
  \cup (IF /\ hv.rec[1] = IntV(x.api_key) /\ hv.rec[2] = IntV(x.version)
           /\ hs.name = "RequestHeader" /\ phs.name = "ResponseHeader"
        THEN {} ELSE {"request_header_fields_differ"})

VARIABLE ci
Init == ci = 1
Next == /\ ci <= N
        /\ LET c == Cases[ci]
               f == UNION {ExchangeFails(c.exchanges[i]) : i \in 1..Len(c.exchanges)} IN
           PrintT(ToJson([id |-> c.id, fails |-> f]))
        /\ ci' = ci + 1
Spec == Init /\ [][Next]_ci
AllJudged == TLCGet("stats").diameter >= N
=============================================================================
