SPECIFICATION Spec
CONSTANTS
  Threads = {1, 2}
  MaxOps = 2
  Scratch = "private"
  Evicting = TRUE
  Vals = {1}
  StartKinds = {"w"}
  StartClasses = {"A"}
INVARIANT ResultIsFunction
INVARIANT BuildDiscipline
INVARIANT NoResidue
INVARIANT PrivateDesignHasNoSharedState
CHECK_DEADLOCK FALSE
