SPECIFICATION Spec
CONSTANTS
  MaxFields = 1
  Rich = TRUE
  Emit = TRUE
INVARIANT EmitInv
CHECK_DEADLOCK FALSE
