----------------------------- MODULE SchemaModel -----------------------------
(***************************************************************************)
(* The schema package as a configuration: a finite relational structure    *)
(* (1629 classes in 666 version modules, an index, a lookup service) and   *)
(* the rules it must satisfy.  The structure is a snapshot of the LIVE     *)
(* package taken by walking it on disk; all rules are stated here.         *)
(*                                                                         *)
(*   C13  FieldCoherent / ClassCoherent : each entity is self-describing   *)
(*   C14  ModuleCoherent / FamilyCoherent / ApiCoherent                    *)
(*   C08  HeaderRule (Kafka's ApiMessageTypeGenerator), pairing            *)
(*   C09  Lookup: the specified answer of the dynamic index                *)
(*   C15  (static part) dataclass options of a value object                *)
(* The walk visits one item per step (class, module, family, API, query)   *)
(* and prints the failed clauses of that item.                             *)
(***************************************************************************)
EXTENDS KafkaCodec, Json, IOUtils, TLCExt

Data == JsonDeserialize(IOEnv.KIO_TRACE_FILE)
Classes == Data.classes
Modules == Data.modules
Index == Data.index
Queries == Data.queries

KTypes == {"int8", "int16", "int32", "int64", "uint8", "uint16", "uint32", "uint64",
           "float64", "bool", "string", "bytes", "records", "uuid", "error_code",
           "timedelta_i32", "timedelta_i64", "datetime_i64"}
WireNullKTypes == {"string", "bytes", "records", "uuid", "datetime_i64"}

FamilyFor(kt) ==
  CASE kt = "int8" -> "i8" [] kt = "int16" -> "i16" [] kt = "int32" -> "i32" [] kt = "int64" -> "i64"
    [] kt = "uint8" -> "u8" [] kt = "uint16" -> "u16" [] kt = "uint32" -> "u32" [] kt = "uint64" -> "u64"
    [] kt = "float64" -> "f64" [] kt = "bool" -> "bool" [] kt = "string" -> "str"
    [] kt = "bytes" -> "bytes" [] kt = "records" -> "Records" [] kt = "uuid" -> "UUID"
    [] kt = "error_code" -> "ErrorCode" [] kt = "timedelta_i32" -> "i32Timedelta"
    [] kt = "timedelta_i64" -> "i64Timedelta" [] kt = "datetime_i64" -> "TZAware"
    [] OTHER -> "?"

\* ---- C13 -------------------------------------------------------------------
\* can a default be resolved for a tagged field (explicit, or Kafka's implicit one)?
RECURSIVE Resolvable(_)
Resolvable(f) ==
  \/ f.hasd
  \/ /\ ~f.nul /\ ~f.arr
     /\ IF f.kind = "prim" THEN f.ktype \in KTypes \ {"records"}
        ELSE \A i \in 1..Len(f.sub.fields) : Resolvable(f.sub.fields[i])

\* smallest possible encoding of a struct is at least one byte?
RECURSIVE NonEmptyEncoding(_)
NonEmptyEncoding(s) ==
  s.flex \/ \E i \in 1..Len(s.fields) :
              LET f == s.fields[i] IN f.tag < 0 /\ (f.arr \/ f.kind = "prim" \/ f.nul \/ NonEmptyEncoding(f.sub))

DefaultOK(f) ==      \* the default inhabits the declared type
  IF IsNull(f.dflt) THEN f.nul \/ (f.kind = "prim" /\ f.ktype = "uuid")
  ELSE IF f.arr THEN K(f.dflt) = "seq" /\ \A j \in 1..Len(f.dflt.seq) :
                         (IF f.kind = "prim" THEN WellTypedPrim(f.ktype, f.dflt.seq[j])
                          ELSE WellTyped(f.sub, f.dflt.seq[j]))
  ELSE IF f.kind = "prim" THEN f.ktype \in KTypes /\ WellTypedPrim(f.ktype, f.dflt)
  ELSE WellTyped(f.sub, f.dflt)

ResolvedOK(f, rd) ==
  /\ rd.status = "ok" /\ rd.same_class
  /\ DefaultOK([f EXCEPT !.dflt = rd.value])
  /\ rd.value = DefaultOf(f)      \* Kafka's rule: the explicit default, else empty / null / zero, field by field

FieldFails(c, d) ==
  LET f == d.fs IN
     (IF f.kind = "prim" /\ f.ktype \notin KTypes THEN {"field_kafka_type_unknown"} ELSE {})
  \cup (IF f.kind = "prim" /\ f.ktype \in KTypes /\ d.family # FamilyFor(f.ktype)
        THEN {"field_python_type_does_not_match_kafka_type"} ELSE {})
  \cup (IF f.kind = "struct" /\ d.leaf_module # c.module THEN {"nested_entity_from_other_module"} ELSE {})
  \cup (IF d.container \notin {"none", "tuple"} THEN {"array_is_not_a_homogeneous_tuple"} ELSE {})
  \cup (IF f.nul /\ ~f.arr /\ f.kind = "prim" /\ f.ktype \notin WireNullKTypes
        THEN {"nullable_type_without_wire_null"} ELSE {})
  \cup (IF f.inul /\ (f.kind = "struct" \/ f.ktype \notin WireNullKTypes)
        THEN {"nullable_array_item_without_wire_null"} ELSE {})
  \cup (IF f.hasd /\ (~d.dflt_projectable \/ ~DefaultOK(f)) THEN {"default_does_not_inhabit_type"} ELSE {})
  \cup (IF f.tag < -1 THEN {"tag_is_not_a_non_negative_integer"} ELSE {})
  \cup (IF f.tag >= 0 /\ ~c.flex THEN {"tag_on_non_flexible_version"} ELSE {})
  \cup (IF f.tag >= 0 /\ ~Resolvable(f) THEN {"tagged_field_without_resolvable_default"} ELSE {})
  \* what the library resolves as the default of a tagged field (asked twice: before and after every codec was derived)
  \cup (IF f.tag >= 0 /\ Resolvable(f) /\ (~ResolvedOK(f, d.rd) \/ ~ResolvedOK(f, d.rd_again))
        THEN {"resolved_tagged_default_does_not_inhabit_type"} ELSE {})
  \cup (IF f.tag >= 0 /\ f.nul /\ f.hasd /\ ~IsNull(f.dflt) THEN {"nullable_tagged_field_with_non_null_default"} ELSE {})
  \cup (IF f.kind = "struct" /\ f.arr /\ ~NonEmptyEncoding(f.sub) THEN {"array_element_may_encode_to_zero_bytes"} ELSE {})

\* Kafka's ApiMessageTypeGenerator: request header v2 for flexible versions, v1 otherwise,
\* v0 only for ControlledShutdown (key 7) v0; response header v1 for flexible versions,
\* v0 otherwise, and always v0 for ApiVersions (key 18)
ExpectedHeaderVersion(etype, key, version, flex) ==
  IF etype = "request" THEN
    IF key = 7 /\ version = 0 THEN 0 ELSE IF flex THEN 2 ELSE 1
  ELSE IF key = 18 THEN 0 ELSE IF flex THEN 1 ELSE 0

ClassFails(c) ==
  LET n == Len(c.fields)
      tags == [i \in 1..n |-> c.fields[i].fs.tag] IN
     UNION {FieldFails(c, c.fields[i]) : i \in 1..n}
  \cup (IF \E i, j \in 1..n : i < j /\ tags[i] >= 0 /\ tags[i] = tags[j] THEN {"duplicate_tag"} ELSE {})
  \cup (IF \E i, j \in 1..n : i < j /\ c.fields[i].name = c.fields[j].name THEN {"duplicate_field_name"} ELSE {})
  \cup (IF c.buildable THEN {} ELSE {"reader_or_writer_cannot_be_derived"})
  \cup (IF c.flex_is_bool THEN {} ELSE {"flexibility_flag_is_not_a_boolean"})
  \* C14, class part
  \cup (IF c.version = c.mod_version THEN {} ELSE {"class_version_differs_from_module_path"})
  \cup (IF c.etype = "nested" \/ c.etype = c.mod_etype THEN {} ELSE {"class_entity_type_differs_from_module_path"})
  \cup (IF c.etype \in {"request", "response", "header", "data", "nested"} THEN {} ELSE {"unknown_entity_type"})
  \* C15, static part
  \cup (IF c.frozen /\ c.eq /\ c.slots /\ ~c.has_dict THEN {} ELSE {"not_a_frozen_slotted_value_class"})
  \* C08
  \cup (IF c.mod_etype \in {"request", "response"} THEN
          (IF /\ c.header_name = (IF c.mod_etype = "request" THEN "RequestHeader" ELSE "ResponseHeader")
              /\ c.header_version = ExpectedHeaderVersion(c.mod_etype, c.api_key, c.version, c.flex)
           THEN {} ELSE {"header_schema_violates_kafka_rule"})
        ELSE (IF c.header_name = "" THEN {} ELSE {"non_payload_entity_advertises_header"}))
  \cup (IF c.mod_etype \in {"request", "response"} /\ c.api_key < 0 THEN {"payload_without_api_key"} ELSE {})

\* ---- C14 -------------------------------------------------------------------
Lower(cs) == [i \in 1..Len(cs) |-> IF cs[i] >= 65 /\ cs[i] <= 90 THEN cs[i] + 32 ELSE cs[i]]
NoUnderscore(cs) == SelectSeq(cs, LAMBDA x : x # 95)
EndsWith(cs, suf) == Len(cs) >= Len(suf) /\ SubSeq(cs, Len(cs) - Len(suf) + 1, Len(cs)) = suf
StripSuffix(cs, suf) == IF EndsWith(cs, suf) THEN SubSeq(cs, 1, Len(cs) - Len(suf)) ELSE cs
ReqSuffix == <<82, 101, 113, 117, 101, 115, 116>>          \* "Request"
RespSuffix == <<82, 101, 115, 112, 111, 110, 115, 101>>     \* "Response"

ClassesOf(m) == SelectSeq(Classes, LAMBDA c : c.module = m.path)

ModuleFails(m) ==
  LET cs == ClassesOf(m)
      tops == SelectSeq(cs, LAMBDA c : c.etype # "nested") IN
     (IF Len(cs) = 0 THEN {"module_without_entity_class"} ELSE {})
  \cup (IF Len(tops) = 1 THEN {} ELSE {"module_must_have_exactly_one_top_level_class"})
  \cup (IF \A i \in 1..Len(cs) : cs[i].flex = cs[1].flex THEN {} ELSE {"flexibility_differs_within_module"})
  \cup (IF \A i \in 1..Len(cs) : cs[i].api_key = cs[1].api_key THEN {} ELSE {"api_key_differs_within_module"})
  \cup (IF \A i \in 1..Len(cs) : cs[i].header_name = cs[1].header_name /\ cs[i].header_version = cs[1].header_version
        THEN {} ELSE {"header_schema_differs_within_module"})
  \cup (IF m.version >= 0 /\ m.etype \in {"request", "response", "header", "data"} THEN {} ELSE {"module_path_malformed"})
  \cup (IF Len(tops) = 1 THEN
          LET t == tops[1]
              base == IF m.etype = "request" THEN StripSuffix(t.name_cp, ReqSuffix)
                      ELSE IF m.etype = "response" THEN StripSuffix(t.name_cp, RespSuffix) ELSE t.name_cp IN
             (IF Lower(base) = NoUnderscore(m.api_cp) THEN {} ELSE {"api_name_in_path_differs_from_top_level_class"})
          \cup (IF m.etype \in {"request", "response"} /\ base = t.name_cp THEN {"payload_class_name_lacks_type_suffix"} ELSE {})
        ELSE {})

Families == SetToSeq({<<Modules[i].api, Modules[i].etype>> : i \in 1..Len(Modules)})
VersionsOf(api, etype) == {Modules[i].version : i \in {j \in 1..Len(Modules) : Modules[j].api = api /\ Modules[j].etype = etype}}
TopOf(api, etype, v) ==
  LET cs == SelectSeq(Classes, LAMBDA c : c.mod_api = api /\ c.mod_etype = etype /\ c.mod_version = v /\ c.etype # "nested")
  IN cs[1]
MinOf(S) == CHOOSE x \in S : \A y \in S : x <= y
MaxOf(S) == CHOOSE x \in S : \A y \in S : x >= y

TopsOf(api, etype) ==      \* the top-level classes of a family, one filter pass
  SelectSeq(Classes, LAMBDA c : c.mod_api = api /\ c.mod_etype = etype /\ c.etype # "nested")

FamilyFails(fam) ==
  LET api == fam[1] etype == fam[2] vs == VersionsOf(api, etype)
      T == TopsOf(api, etype)
      other == IF etype = "request" THEN "response" ELSE "request"
      O == IF etype \in {"request", "response"} THEN TopsOf(api, other) ELSE <<>> IN
     (IF vs = MinOf(vs)..MaxOf(vs) THEN {} ELSE {"versions_not_contiguous"})
  \cup (IF \A a, b \in 1..Len(T) : (T[a].mod_version < T[b].mod_version /\ T[a].flex) => T[b].flex
        THEN {} ELSE {"flexibility_reverts"})
  \cup (IF \A a \in 1..Len(T) : T[a].api_key = T[1].api_key THEN {} ELSE {"api_key_changes_between_versions"})
  \cup (IF etype \in {"request", "response"} /\ VersionsOf(api, other) # vs
        THEN {"request_and_response_versions_differ"} ELSE {})
  \cup (IF \E a \in 1..Len(T), b \in 1..Len(O) :
             T[a].mod_version = O[b].mod_version /\ (T[a].api_key # O[b].api_key \/ T[a].flex # O[b].flex)
        THEN {"request_and_response_disagree_on_key_or_flexibility"} ELSE {})

\* key <-> API name, computed from the classes (independent of the generated index)
PayloadApis == {Modules[i].api : i \in {j \in 1..Len(Modules) : Modules[j].etype \in {"request", "response"}}}
KeyOfApi(api) ==
  LET T == TopsOf(api, "request") \o TopsOf(api, "response")
  IN IF T = <<>> THEN -1 ELSE T[1].api_key
ApiTable == {<<KeyOfApi(a), a>> : a \in PayloadApis}

ModulePathOfTop(m) ==
  LET tops == SelectSeq(ClassesOf(m), LAMBDA c : c.etype # "nested")
  IN IF Len(tops) = 1 THEN tops[1].sid ELSE "?"

ApiFails ==
     (IF \A p, q \in ApiTable : p[1] = q[1] => p[2] = q[2] THEN {} ELSE {"api_key_shared_by_two_apis"})
  \cup (IF {<<Index.keys[i].key, Index.keys[i].name>> : i \in 1..Len(Index.keys)} = ApiTable
        THEN {} ELSE {"api_key_map_is_not_the_key_to_api_bijection"})
  \cup (IF Cardinality({Index.keys[i].key : i \in 1..Len(Index.keys)}) = Len(Index.keys) THEN {} ELSE {"api_key_map_duplicate_key"})
  \* every module on disk is reachable through the index, and nothing else is
  \cup (IF { <<Index.entries[i].name, Index.entries[i].version, Index.entries[i].etype, Index.entries[i].path>> : i \in 1..Len(Index.entries) }
          = { <<Modules[i].api, Modules[i].version, Modules[i].etype,
                ModulePathOfTop(Modules[i])>> : i \in 1..Len(Modules) }
        THEN {} ELSE {"index_entries_differ_from_modules_on_disk"})

\* ---- C09 / C08: the lookup service --------------------------------------------
\* the specified answer: [out |-> "ok", module, name] or [out |-> "UnknownAPIKey"/"UnknownEntity"]
Answer(out, mod, name) == [out |-> out, module |-> mod, name |-> name]
LookupEntity(api, version, etype) ==
  LET ms == {j \in 1..Len(Modules) : Modules[j].api = api /\ Modules[j].version = version /\ Modules[j].etype = etype}
  IN IF ms = {} THEN Answer("UnknownEntity", "", "")
     ELSE LET m == Modules[CHOOSE j \in ms : TRUE]
              tops == SelectSeq(ClassesOf(m), LAMBDA c : c.etype # "nested")
          IN Answer("ok", m.path, IF tops = <<>> THEN "" ELSE tops[1].name)   \* a class-less module is reported by ModuleFails
ApiOfKey(key) == IF \E p \in ApiTable : p[1] = key THEN (CHOOSE p \in ApiTable : p[1] = key)[2] ELSE ""

\* a query is [fn, kind \in {"name","key"}, valid (arguments are of the documented types),
\*             api, key, version, etype, want ("module"|"class"), out, module, name]
Expected(q) ==
  IF ~q.valid THEN Answer("UnknownEntity", "", "")       \* wrong-typed arguments: still a documented error
  ELSE IF q.kind = "name" THEN LookupEntity(q.api, q.version, q.etype)
  ELSE IF ApiOfKey(q.key) = "" THEN Answer("UnknownAPIKey", "", "")
  ELSE LookupEntity(ApiOfKey(q.key), q.version, q.etype)

QueryFails(q) ==
  LET e == Expected(q) IN
  IF ~q.valid THEN (IF q.out \in {"UnknownEntity", "UnknownAPIKey"} THEN {} ELSE {"lookup_failed_differently_on_invalid_argument"})
  ELSE IF e.out # "ok" THEN (IF q.out = e.out THEN {} ELSE
                              {IF q.out = "ok" THEN "lookup_returned_entity_for_unknown_key" ELSE "lookup_raised_wrong_error"})
  ELSE IF q.out # "ok" THEN {"lookup_failed_for_known_entity"}
  ELSE    (IF q.module = e.module THEN {} ELSE {"lookup_returned_wrong_module"})
       \cup (IF q.want = "module" \/ q.name = e.name THEN {} ELSE {"lookup_returned_wrong_class"})
       \cup (IF q.identical THEN {} ELSE {"lookup_result_is_not_the_imported_object"})

\* ---- the walk ----------------------------------------------------------------
\* the walk is sharded over JVMs: shard k of n handles the items with index % n = k
ShardN == CHOOSE n \in 1..64 : ToString(n) = IOEnv.KIO_SHARD_N
ShardK == CHOOSE k \in 0..63 : ToString(k) = IOEnv.KIO_SHARD_K
Mine(j) == j % ShardN = ShardK

VARIABLES ph, i
vars == <<ph, i>>
Init == ph = "class" /\ i = 1

Report(kind, id, f) == IF f = {} THEN TRUE ELSE PrintT(ToJson([kind |-> kind, id |-> id, fails |-> f]))
ReportIfMine(j, kind, id, f) == IF Mine(j) THEN Report(kind, id, f) ELSE TRUE

Next ==
  \/ /\ ph = "class" /\ i <= Len(Classes) /\ (Mine(i) => Report("class", Classes[i].sid, ClassFails(Classes[i])))
     /\ i' = i + 1 /\ ph' = ph
  \/ /\ ph = "class" /\ i > Len(Classes) /\ ph' = "module" /\ i' = 1
  \/ /\ ph = "module" /\ i <= Len(Modules) /\ (Mine(i) => Report("module", Modules[i].path, ModuleFails(Modules[i])))
     /\ i' = i + 1 /\ ph' = ph
  \/ /\ ph = "module" /\ i > Len(Modules) /\ ph' = "family" /\ i' = 1
  \/ /\ ph = "family" /\ i <= Len(Families)
     /\ (Mine(i) => Report("family", Families[i][1] \o "/" \o Families[i][2], FamilyFails(Families[i])))
     /\ i' = i + 1 /\ ph' = ph
  \/ /\ ph = "family" /\ i > Len(Families) /\ (Mine(0) => Report("api", "index", ApiFails)) /\ ph' = "query" /\ i' = 1
  \/ /\ ph = "query" /\ i <= Len(Queries) /\ (Mine(i) => Report("query", Queries[i].id, QueryFails(Queries[i])))
     /\ i' = i + 1 /\ ph' = ph
  \/ /\ ph = "query" /\ i > Len(Queries) /\ ph' = "done" /\ i' = 1
Spec == Init /\ [][Next]_vars
Complete == TLCGet("stats").diameter >= Len(Classes) + Len(Modules) + Len(Families) + Len(Queries) + 4
=============================================================================
