SPECIFICATION Spec
CONSTANTS
  Lens <- LensDef
  Pre = 2
  Post = 2
  MaxChunk = 3
INVARIANT LogIsPrefixOfStream
INVARIANT FIFO
INVARIANT ReaderOnBoundaryWhenIdle
INVARIANT NeverReadsAhead
INVARIANT TrailingBytesUntouched
PROPERTY AppendOnly
PROPERTY EverythingDelivered
CHECK_DEADLOCK FALSE
