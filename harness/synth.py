"""Materialise a real frozen dataclass for an abstract schema produced by the specification
(spec -> code direction).  The class carries the same annotations / metadata / class
variables that kio's generated schema modules carry, so kio.serial treats it like any
shipped entity.  This reaches shapes Kafka 3.9.0 does not contain."""
from __future__ import annotations

import dataclasses
import datetime
import hashlib
import json
import uuid

from . import kioenv, project

kioenv.activate()

_CACHE: dict[str, type] = {}


def _prim_type(kt: str):
    from kio.schema.errors import ErrorCode
    from kio.static import primitive as p
    return {
        "int8": p.i8, "int16": p.i16, "int32": p.i32, "int64": p.i64,
        "uint8": p.u8, "uint16": p.u16, "uint32": p.u32, "uint64": p.u64,
        "float64": p.f64, "bool": bool, "string": str, "bytes": bytes, "records": p.Records,
        "uuid": uuid.UUID, "error_code": ErrorCode, "timedelta_i32": p.i32Timedelta,
        "timedelta_i64": p.i64Timedelta, "datetime_i64": p.TZAware,
    }[kt]


def attach_sids(schema: dict) -> dict:
    """TLC-emitted schemas have no sid: derive one from the content (stable across runs)."""
    for fs in schema["fields"]:
        if fs["kind"] == "struct":
            attach_sids(fs["sub"])
        else:
            fs["sub"] = project.DUMMY_SUB
    body = json.dumps({"name": schema["name"], "flex": schema["flex"], "fields": schema["fields"]},
                      sort_keys=True)
    schema["sid"] = "synth:" + schema["name"] + ":" + hashlib.blake2b(body.encode(), digest_size=8).hexdigest()
    return schema


def make_class(schema: dict) -> type:
    from kio.static.constants import EntityType
    from kio.static.primitive import i16
    if "sid" not in schema:
        attach_sids(schema)
    sid = schema["sid"]
    if sid in _CACHE:
        return _CACHE[sid]
    specs = []
    for fs in schema["fields"]:
        if fs["kind"] == "struct":
            t = make_class(fs["sub"])
        else:
            t = _prim_type(fs["ktype"])
        if fs["arr"]:
            item_t = (t | None) if fs["inul"] else t
            t = tuple[item_t, ...]
        if fs["nul"]:
            t = t | None
        meta = {}
        if fs["kind"] == "prim":
            meta["kafka_type"] = fs["ktype"]
        if fs["tag"] >= 0:
            meta["tag"] = fs["tag"]
        kw = {"metadata": meta}
        specs.append([fs["name"], t, kw, fs])
    ns = {"__type__": EntityType.nested, "__version__": i16(0), "__flexible__": bool(schema["flex"])}
    # defaults need REG entries of sub classes (build_value) - those exist after make_class(sub)
    fields = []
    for name, t, kw, fs in specs:
        if fs["hasd"]:
            kw["default"] = project.build_value(fs["dflt"], fs)
        fields.append((name, t, dataclasses.field(**kw)))
    bases = ()
    if schema.get("base"):
        # an entity class derived from another entity class: the first len(base fields) fields are inherited
        base = make_class(schema["base"])
        bases = (base,)
        fields = fields[len(schema["base"]["fields"]):]
    cls = dataclasses.make_dataclass(schema["name"], fields, bases=bases, frozen=True, slots=True, kw_only=True,
                                     namespace=ns)
    cls.__module__ = "kioverif_synth"
    _CACHE[sid] = cls
    project.REG[sid] = cls
    return cls


def fresh_class(schema: dict) -> type:
    """New class objects (and so new annotation / union / generic-alias objects) for the whole tree of
    `schema`: what a program does that defines an entity class again after earlier classes were dropped."""
    def forget(s: dict) -> None:
        _CACHE.pop(s.get("sid"), None)
        for fs in s["fields"]:
            if fs["kind"] == "struct":
                forget(fs["sub"])
        if s.get("base"):
            forget(s["base"])
    if "sid" not in schema:
        attach_sids(schema)
    forget(schema)
    return make_class(schema)


_SWAP = {"int8": "int32", "int16": "int64", "int32": "int8", "int64": "int16", "uint8": "uint32",
         "uint16": "uint64", "uint32": "uint8", "uint64": "uint16", "string": "bytes", "bytes": "string",
         "bool": "int16", "float64": "int32", "uuid": "int64"}


def dying_class(schema: dict, top: bool = True) -> type:
    """A throw-away class shaped like `schema` (same field positions, arrays and optionals in the same
    places) but with different leaf types and different nested classes, registered nowhere, and - at the top -
    ending in a field kio cannot classify (no kafka_type), so deriving a reader or writer for it fails after
    every earlier field has been looked at.  Tagged fields are left out (they would need defaults)."""
    from kio.static.constants import EntityType
    from kio.static.primitive import i16, i32
    fields = []
    for fs in schema["fields"]:
        if fs["tag"] >= 0:
            continue
        meta = {}
        if fs["kind"] == "struct":
            t = dying_class(fs["sub"], False)
        else:
            kt = _SWAP.get(fs["ktype"], fs["ktype"])
            t = _prim_type(kt)
            meta["kafka_type"] = kt
        if fs["arr"]:
            item_t = (t | None) if fs["inul"] else t
            t = tuple[item_t, ...]
        if fs["nul"]:
            t = t | None
        fields.append((fs["name"], t, dataclasses.field(metadata=meta)))
    if top:
        fields.append(("oops_", i32, dataclasses.field(metadata={})))
    else:
        fields.append(("extra_", i32, dataclasses.field(metadata={"kafka_type": "int32"})))
    ns = {"__type__": EntityType.nested, "__version__": i16(0), "__flexible__": bool(schema["flex"])}
    cls = dataclasses.make_dataclass(schema["name"], fields, frozen=True, slots=True, kw_only=True, namespace=ns)
    cls.__module__ = "kioverif_dying"
    return cls
