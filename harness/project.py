"""Projection between kio objects and the specification's abstract schemas / values.

This is the one place where the harness interprets kio objects.  It reads only what the
dataclass machinery and the class itself expose (dataclasses.fields, annotations,
field.metadata, default, class variables); it does not import kio.serial._introspect or
kio.serial._implicit_defaults, which are under test.

Abstract schema (JSON, mirrors spec/KafkaCodec.tla):
  {"sid", "name", "flex", "fields": [ {"name","kind","arr","ktype","nul","inul","tag",
                                       "hasd","dflt","sub"} ]}
Abstract values are one-field records {kind: payload} (spec/KafkaPrim.tla).
"""
from __future__ import annotations

import dataclasses
import datetime
import importlib
import pkgutil
import types
import typing
import uuid

from . import kioenv

kioenv.activate()

W = 72
EPOCH = datetime.datetime(1970, 1, 1, tzinfo=datetime.timezone.utc)
MS = datetime.timedelta(milliseconds=1)
US = datetime.timedelta(microseconds=1)

NULL = {"null": 0}
BAD = {"bad": 0}
BAD_SUBMS = {"bad": 1}


def kind(a: dict) -> str:
    (k,) = a.keys()
    return k


def payload(a: dict):
    (v,) = a.values()
    return v

DUMMY_SUB = {"sid": "", "name": "", "flex": False, "fields": []}


class ProjectionError(Exception):
    pass


# ---------------------------------------------------------------- integers
def aint(n: int) -> dict:
    if -(2**30) <= n < 2**30:
        return {"int": int(n)}
    if not -(2 ** (W - 1)) <= n < 2 ** (W - 1):
        raise ProjectionError(f"integer {n} does not fit {W} bits")
    return {"bits": [(n >> i) & 1 for i in range(W)]}


def unaint(a: dict) -> int:
    if "int" in a:
        return a["int"]
    if "bits" in a:
        bits = a["bits"]
        n = sum(b << i for i, b in enumerate(bits))
        return n - (1 << W) if bits[W - 1] else n
    raise ProjectionError(f"not an integer value: {a}")


def runs(b: bytes) -> list:
    """Run-length notation [[byte, count], ...] (maximal runs)."""
    out = []
    for c in b:
        if out and out[-1][0] == c:
            out[-1][1] += 1
        else:
            out.append([c, 1])
    return out


def unruns(rs) -> bytes:
    return b"".join(bytes([c]) * n for c, n in rs)


MAX_RUNS = 48


def babs(b: bytes) -> dict:
    """A byte string at the JSON boundary: raw list, or runs when it has few long runs."""
    if len(b) > 128:
        rs = runs(b)
        if len(rs) <= MAX_RUNS:
            return {"rle": rs}
    return {"raw": list(b)}


def unbabs(a: dict) -> bytes:
    return bytes(a["raw"]) if "raw" in a else unruns(a["rle"])


def blen(a: dict) -> int:
    return len(a["raw"]) if "raw" in a else sum(n for _, n in a["rle"])


def ablob(b: bytes) -> dict:
    if len(b) > 128:
        rs = runs(b)
        if len(rs) <= MAX_RUNS:
            return {"rle": rs}
    return {"blob": list(b)}


def unblob(a: dict) -> bytes:
    if "rle" in a:
        return unruns(a["rle"])
    return bytes(a["blob"])


# ---------------------------------------------------------------- floats
def afloat(x: float) -> dict:
    """(sign, biased exponent, 52 mantissa bits LSB first) from float.hex(), not struct."""
    h = x.hex()
    sign = 1 if h.startswith("-") else 0
    h = h.lstrip("+-")
    if h == "inf":
        return {"f64": [sign, 2047, [0] * 52]}
    if h == "nan":
        # float.hex() drops the NaN payload; only for NaNs (outside the canonical domain,
        # reached by C05/C10) the bit pattern is taken from struct.
        import struct
        q = int.from_bytes(struct.pack(">d", x), "big")
        return {"f64": [q >> 63, 2047, [(q >> i) & 1 for i in range(52)]]}
    assert h.startswith("0x"), h
    mant_s, exp_s = h[2:].split("p")
    lead, _, frac = mant_s.partition(".")
    frac = (frac + "0" * 13)[:13]
    mant = int(frac, 16)
    if lead == "1":
        e = int(exp_s) + 1023
    else:  # zero or subnormal
        e = 0
    return {"f64": [sign, e, [(mant >> i) & 1 for i in range(52)]]}


def unafloat(a: dict) -> float:
    sign, e, mbits = a["f64"]
    mant = sum(b << i for i, b in enumerate(mbits))
    s = "-" if sign else ""
    if e == 2047:
        if mant == 0:
            return float(s + "inf")
        import struct
        return struct.unpack(">d", ((sign << 63) | (2047 << 52) | mant).to_bytes(8, "big"))[0]
    if e == 0:
        return float.fromhex(f"{s}0x0.{mant:013x}p-1022")
    return float.fromhex(f"{s}0x1.{mant:013x}p{e - 1023:+d}")


# ---------------------------------------------------------------- walking the package
def walk_schema_modules(pkgname: str = "kio.schema"):
    """All modules of the schema package found on disk (not via kio.index)."""
    pkg = importlib.import_module(pkgname)
    out = []

    def rec(p):
        for m in pkgutil.iter_modules(p.__path__):
            full = f"{p.__name__}.{m.name}"
            mod = importlib.import_module(full)
            if m.ispkg:
                rec(mod)
            else:
                out.append(mod)

    rec(pkg)
    return out


def module_classes(mod) -> list[type]:
    return [
        v
        for v in vars(mod).values()
        if isinstance(v, type)
        and getattr(v, "__module__", None) == mod.__name__
        and dataclasses.is_dataclass(v)
    ]


def all_entity_classes() -> list[type]:
    out = []
    for mod in walk_schema_modules():
        if mod.__name__.count(".") >= 4:
            out.extend(module_classes(mod))
    return out


# ---------------------------------------------------------------- schema projection
REG: dict[str, type] = {}
_SCHEMAS: dict[type, dict] = {}


def sid_of(cls: type) -> str:
    return f"{cls.__module__}:{cls.__qualname__}"


def _unwrap(t):
    """-> (inner type, optional?)"""
    if typing.get_origin(t) in (types.UnionType, typing.Union):
        args = [a for a in typing.get_args(t) if a is not type(None)]
        if len(args) != 1 or len(typing.get_args(t)) != 2:
            raise ProjectionError(f"unsupported union {t}")
        return args[0], True
    return t, False


def project_schema(cls: type) -> dict:
    if cls in _SCHEMAS:
        return _SCHEMAS[cls]
    hints = typing.get_type_hints(cls)
    fields = []
    for f in dataclasses.fields(cls):
        t, nul = _unwrap(hints[f.name])
        arr = inul = False
        if typing.get_origin(t) is tuple:
            a = typing.get_args(t)
            if len(a) != 2 or a[1] is not Ellipsis:
                raise ProjectionError(f"{cls.__name__}.{f.name}: tuple args {a}")
            arr = True
            t, inul = _unwrap(a[0])
        tag = f.metadata.get("tag", -1)
        if dataclasses.is_dataclass(t):
            kind, ktype, sub = "struct", "", project_schema(t)
        else:
            kind, sub = "prim", DUMMY_SUB
            ktype = f.metadata.get("kafka_type")
            if not isinstance(ktype, str):
                raise ProjectionError(f"{cls.__name__}.{f.name}: no kafka_type")
        fs = {
            "name": f.name, "kind": kind, "arr": arr, "ktype": ktype, "nul": nul,
            "inul": inul, "tag": int(tag), "hasd": False, "dflt": NULL, "sub": sub,
        }
        if f.default is not dataclasses.MISSING:
            fs["hasd"] = True
            fs["dflt"] = project_value(f.default, fs)
        elif f.default_factory is not dataclasses.MISSING:
            raise ProjectionError(f"{cls.__name__}.{f.name}: default_factory")
        fields.append(fs)
    s = {"sid": sid_of(cls), "name": cls.__name__, "flex": bool(cls.__flexible__),
         "fields": fields}
    _SCHEMAS[cls] = s
    REG[s["sid"]] = cls
    return s


# ---------------------------------------------------------------- value projection
def _project_item(x, fs: dict) -> dict:
    if x is None:
        return NULL
    if fs["kind"] == "struct":
        return project_entity(x, fs["sub"])
    kt = fs["ktype"]
    if kt in ("int8", "int16", "int32", "int64", "uint8", "uint16", "uint32", "uint64",
              "error_code"):
        if not isinstance(x, int):
            return BAD
        return aint(int(x))
    if kt == "bool":
        if not isinstance(x, (bool, int)) or int(x) not in (0, 1):
            return BAD
        return {"int": int(x)}
    if kt == "float64":
        if not isinstance(x, float):
            return BAD
        return afloat(x)
    if kt == "string":
        if not isinstance(x, str):
            return BAD
        return ablob(x.encode("utf-8", "surrogatepass"))
    if kt in ("bytes", "records"):
        if not isinstance(x, (bytes, bytearray)):
            return BAD
        return ablob(bytes(x))
    if kt == "uuid":
        if not isinstance(x, uuid.UUID):
            return BAD
        return ablob(x.bytes)
    if kt in ("timedelta_i32", "timedelta_i64"):
        if not isinstance(x, datetime.timedelta):
            return BAD
        q, r = divmod(x, MS)
        if r:
            return BAD_SUBMS      # sub-millisecond: not canonical
        return aint(q)
    if kt == "datetime_i64":
        if not isinstance(x, datetime.datetime) or x.tzinfo is None:
            return BAD
        q, r = divmod(x - EPOCH, MS)
        if r:
            return BAD_SUBMS
        return aint(q)
    raise ProjectionError(f"unknown kafka type {kt!r}")


def project_value(x, fs: dict) -> dict:
    if x is None:
        return NULL
    if fs["arr"]:
        if not isinstance(x, tuple):
            return BAD
        return {"seq": [_project_item(i, fs) for i in x]}
    return _project_item(x, fs)


def project_entity(x, schema: dict) -> dict:
    if not dataclasses.is_dataclass(x):
        return BAD
    try:
        return {"rec": [project_value(getattr(x, fs["name"]), fs)
                        for fs in schema["fields"]]}
    except AttributeError:
        return BAD


# ---------------------------------------------------------------- value construction
def _build_item(a: dict, fs: dict):
    if "null" in a:
        return None
    if fs["kind"] == "struct":
        return build_entity(a, fs["sub"])
    kt = fs["ktype"]
    if kt in ("int8", "int16", "int32", "int64", "uint8", "uint16", "uint32", "uint64"):
        return unaint(a)
    if kt == "error_code":
        from kio.schema.errors import ErrorCode
        return ErrorCode(unaint(a))
    if kt == "bool":
        return bool(a["int"])
    if kt == "float64":
        return unafloat(a)
    if kt == "string":
        return unblob(a).decode("utf-8")
    if kt in ("bytes", "records"):
        return unblob(a)
    if kt == "uuid":
        return uuid.UUID(bytes=unblob(a))
    if kt in ("timedelta_i32", "timedelta_i64"):
        return datetime.timedelta(milliseconds=unaint(a))
    if kt == "datetime_i64":
        return EPOCH + datetime.timedelta(milliseconds=unaint(a))
    raise ProjectionError(f"unknown kafka type {kt!r}")


def build_value(a: dict, fs: dict):
    if "null" in a:
        return None
    if fs["arr"]:
        return tuple(_build_item(i, fs) for i in a["seq"])
    return _build_item(a, fs)


def build_entity(a: dict, schema: dict):
    cls = REG[schema["sid"]]
    return cls(**{fs["name"]: build_value(v, fs) for fs, v in zip(schema["fields"], a["rec"])})


def schema_json(schema: dict) -> dict:
    """The schema as sent to TLC (identical; kept as a function for one point of change)."""
    return schema
