"""C04: reconstruct upstream-style message definitions from the shipped schema package (the
inverse image of the translation of spec/Codegen.tla), so that the CURRENT generator can be run on
them and its output compared with the shipped classes (fixpoint), although the upstream JSON files
are not available offline.

Nothing here imports /repo/codegen: the casing rule is a port of spec/SnakeCase.tla and the special
name lists are those pinned in spec/Codegen.tla - otherwise a change of the generator's rules would
be absorbed by the search for a preimage instead of showing up as a difference.
"""
from __future__ import annotations

import builtins
import collections
import keyword

from . import project
from .defgen import NONE, OPEN
from .project import NULL

TIMEDELTA_NAMES = ["timeoutMs", "TimeoutMs", "ThrottleTimeMs", "MaxWaitMs", "SessionLifetimeMs",
                   "TransactionTimeoutMs", "MaxLifetimeMs", "SessionTimeoutMs", "RebalanceTimeoutMs",
                   "ExpiryTimePeriodMs", "RenewPeriodMs", "RetentionTimeMs", "HeartbeatIntervalMs", "PushIntervalMs"]
DATETIME_NAMES = ["IssueTimestampMs", "ExpiryTimestampMs", "MaxTimestampMs", "TransactionStartTimeMs",
                  "LogAppendTimeMs"]
ERROR_NAMES = ["ErrorCode", "PartitionErrorCode"]


class Irreconstructible(Exception):
    """The shipped classes are not the image of any definition under the specified translation."""


def snake(s: str) -> str:
    """Port of spec/SnakeCase.tla (Break / SnakeFrom / Snake)."""
    out = []
    n = len(s)
    for i, c in enumerate(s):
        brk = False
        if i >= 1:
            p = s[i - 1]
            if i == n - 1:
                brk = p.islower() and c.isupper()
            else:
                nx = s[i + 1]
                brk = ((p.isupper() and c.isupper() and nx.islower()) or (p.islower() and c.isupper())
                       or (p.isdigit() and c.isupper() and nx.islower()))
        if brk:
            out.append("_")
        out.append(c.lower())
    r = "".join(out)
    return r + "_" if r in dir(builtins) else r


def camel(sn: str) -> str:
    s = sn[:-1] if sn.endswith("_") else sn
    return "".join(p[:1].upper() + p[1:] for p in s.split("_"))


def pick_name(py: str, ktype: str | None) -> str:
    if ktype in ("timedelta_i32", "timedelta_i64"):
        c = [n for n in sorted(TIMEDELTA_NAMES) if snake(n[:-2]) == py]
        if not c:
            raise Irreconstructible(f"no duration field name maps to {py!r}")
        return c[0]
    if ktype == "datetime_i64":
        c = [n for n in sorted(DATETIME_NAMES) if snake(n[:-2]) == py]
        if not c:
            raise Irreconstructible(f"no timestamp field name maps to {py!r}")
        return c[0]
    if ktype == "error_code":
        c = [n for n in sorted(ERROR_NAMES) if snake(n) == py]
        if not c:
            raise Irreconstructible(f"no error-code field name maps to {py!r}")
        return c[0]
    c = camel(py)
    if snake(c) != py:
        raise Irreconstructible(f"{py!r} is not the snake case of any CamelCase name ({c!r} -> {snake(c)!r})")
    if c.endswith("Ms") or c in ERROR_NAMES:
        raise Irreconstructible(f"{py!r} would be special-cased by name ({c})")
    return c


def rng(vs, vmax: int) -> list[int]:
    vs = sorted(vs)
    if vs != list(range(vs[0], vs[-1] + 1)):
        raise Irreconstructible(f"non-contiguous version range {vs}")
    return [vs[0], OPEN if vs[-1] == vmax else vs[-1]]


def merge_order(orders: list[list[str]]) -> list[str]:
    succ = collections.defaultdict(set)
    names: list[str] = []
    for o in orders:
        for n in o:
            if n not in names:
                names.append(n)
        for a, b in zip(o, o[1:]):
            succ[a].add(b)
    indeg = {n: 0 for n in names}
    for a in succ:
        for b in succ[a]:
            indeg[b] += 1
    out, avail = [], [n for n in names if indeg[n] == 0]
    while avail:
        n = avail.pop(0)
        out.append(n)
        for b in sorted(succ[n], key=names.index):
            indeg[b] -= 1
            if indeg[b] == 0:
                avail.append(b)
        avail.sort(key=names.index)
    if len(out) != len(names):
        raise Irreconstructible("field order differs between versions in a way no single definition produces")
    return out


def spelling_of(d: dict, ktype: str) -> str:
    if "null" in d:
        return "-1" if ktype == "datetime_i64" else "null"
    if ktype == "bool":
        return "true" if d["int"] else "false"
    if "int" in d or "bits" in d:
        return str(project.unaint(d))
    if "f64" in d:
        return repr(project.unafloat(d))
    if "blob" in d or "rle" in d:
        return project.unblob(d).decode()
    raise Irreconstructible(f"default {d} has no spelling")


BASE_TYPE = {"timedelta_i32": "int32", "timedelta_i64": "int64", "datetime_i64": "int64", "error_code": "int16"}


def reconstruct(snap: dict) -> list[dict]:
    """snapshot (schema_snapshot.snapshot()) -> definitions in the format of harness/defgen.py."""
    fams: dict[tuple[str, str], dict[int, list[dict]]] = collections.defaultdict(dict)
    for c in snap["classes"]:
        fams[(c["mod_api"], c["mod_etype"])].setdefault(c["mod_version"], []).append(c)
    defs = []
    for (api, etype), versions in sorted(fams.items()):
        vmin, vmax = min(versions), max(versions)
        if sorted(versions) != list(range(vmin, vmax + 1)):
            raise Irreconstructible(f"{api}/{etype}: versions not contiguous")
        tops = {v: [c for c in cs if c["etype"] != "nested"] for v, cs in versions.items()}
        if any(len(t) != 1 for t in tops.values()):
            raise Irreconstructible(f"{api}/{etype}: not exactly one top-level class per version")
        topname = tops[vmin][0]["name"]
        flexv = [v for v, cs in versions.items() if cs[0]["flex"]]
        if flexv and sorted(flexv) != list(range(min(flexv), vmax + 1)):
            raise Irreconstructible(f"{api}/{etype}: flexibility is not of the form N+")
        byname: dict[str, dict[int, dict]] = collections.defaultdict(dict)
        for v, cs in versions.items():
            for c in cs:
                byname[c["name"]][v] = c
        refs: collections.Counter = collections.Counter()
        for cname, vs in byname.items():
            seen = set()
            for v, c in vs.items():
                for f in c["fields"]:
                    if f["fs"]["kind"] == "struct" and (cname, f["name"]) not in seen:
                        seen.add((cname, f["name"]))
                        refs[f["leaf_name"]] += 1
        common = {n for n, k in refs.items() if k > 1}
        inline_done: set[str] = set()

        def build_fields(cname: str) -> list[dict]:
            vs = byname[cname]
            cmax = max(vs)
            order = merge_order([[f["name"] for f in vs[v]["fields"]] for v in sorted(vs)])
            out = []
            for fname in order:
                occ = {v: next(f for f in c["fields"] if f["name"] == fname)
                       for v, c in vs.items() if any(f["name"] == fname for f in c["fields"])}
                f0 = occ[min(occ)]
                fs0 = f0["fs"]
                for k in ("kind", "arr", "ktype"):
                    if len({str(f["fs"][k]) for f in occ.values()}) != 1:
                        raise Irreconstructible(f"{api}/{etype} {cname}.{fname}: {k} changes between versions")
                if len({f["leaf_name"] for f in occ.values()}) != 1:
                    raise Irreconstructible(f"{api}/{etype} {cname}.{fname}: declared type changes between versions")
                kt = fs0["ktype"]
                jf = {"versions": rng(occ.keys(), cmax), "nullable": NONE, "tagged": NONE, "tag": -1,
                      "hasdefault": False, "default": NULL, "spelling": None, "ignorable": False, "etype": "",
                      "fields": []}
                custom = f0["leaf_module"] == "kio.schema.types"
                if fs0["kind"] == "prim":
                    jf["name"] = pick_name(fname, kt if not fs0["arr"] else None)
                    jf["t"] = BASE_TYPE.get(kt, kt) if not fs0["arr"] else kt
                    jf["tk"] = "parr" if fs0["arr"] else "prim"
                    if custom:
                        jf["etype"] = f0["leaf_name"][0].lower() + f0["leaf_name"][1:]
                else:
                    jf["name"] = pick_name(fname, None)
                    jf["t"] = f0["leaf_name"]
                    jf["tk"] = ("csarr" if fs0["arr"] else "cstruct") if f0["leaf_name"] in common else \
                               ("sarr" if fs0["arr"] else "struct")
                tagv = {v: f["fs"]["tag"] for v, f in occ.items() if f["fs"]["tag"] >= 0}
                if tagv:
                    if len(set(tagv.values())) != 1:
                        raise Irreconstructible(f"{cname}.{fname}: tag number changes between versions")
                    jf["tag"] = next(iter(tagv.values()))
                    jf["tagged"] = rng(tagv.keys(), cmax)
                optv = [v for v, f in occ.items() if f["fs"]["nul"]]
                dfl = {v: (f["fs"]["dflt"] if f["fs"]["hasd"] else None) for v, f in occ.items()}
                dset = {repr(d) for d in dfl.values()}
                some = next(iter(dfl.values()))
                if fs0["kind"] == "prim" and not fs0["arr"]:
                    if kt == "uuid":
                        if tagv and some is not None and "null" in some:
                            jf["ignorable"] = True
                        elif some is not None and "null" not in some:
                            raise Irreconstructible(f"{cname}.{fname}: uuid with a non-null default")
                    elif kt == "datetime_i64" and all(d is not None and "null" in d for d in dfl.values()):
                        jf["hasdefault"], jf["default"], jf["spelling"] = True, project.aint(-1), "-1"
                    else:
                        if optv:
                            jf["nullable"] = rng(optv, cmax)
                        if len(dset) > 1:
                            raise Irreconstructible(f"{cname}.{fname}: default changes between versions {dset}")
                        if some is not None:
                            jf["hasdefault"], jf["default"] = True, some
                            jf["spelling"] = spelling_of(some, kt)
                elif fs0["kind"] == "prim":
                    if optv:
                        raise Irreconstructible(f"{cname}.{fname}: nullable array of primitives")
                else:
                    if optv:
                        jf["nullable"] = rng(optv, cmax)
                    if not fs0["arr"] and some is not None and "null" in some:
                        jf["hasdefault"], jf["spelling"] = True, "null"
                out.append((jf, f0))
            res = []
            for jf, f0 in out:
                if jf["tk"] in ("struct", "sarr"):
                    if f0["leaf_name"] in inline_done:
                        raise Irreconstructible(f"{cname}.{jf['name']}: structure {f0['leaf_name']} would need a "
                                                f"second inline definition")
                    inline_done.add(f0["leaf_name"])
                    jf["fields"] = build_fields(f0["leaf_name"])
                res.append(jf)
            return res

        d = {"id": f"{api}:{etype}", "kind": etype, "name": topname,
             "apiKey": tops[vmin][0]["api_key"] if etype in ("request", "response") else -1,
             "valid": [vmin, vmax], "flex": [min(flexv), OPEN] if flexv else NONE,
             "fields": build_fields(topname), "common": []}
        for n in sorted(common):
            d["common"].append({"name": n, "versions": rng(byname[n].keys(), vmax), "fields": build_fields(n)})
        defs.append(d)
    return defs
