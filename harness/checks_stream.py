"""Check C07: messages are self-delimiting on a sequential stream, for several kinds of sink and
source (spec/Stream.tla model-checked; spec/StreamTrace.tla validates the recorded streams)."""
from __future__ import annotations

import asyncio
import copy
import importlib
import io
import json
import os
import random
import socket
import threading

from . import codec_driver, kioenv, project, tlc
from .absval import Sampler
from .checklib import Check, Machinery
from .checks_codec import pmap
from .project import babs
from .streams import RecSink, RecSource

kioenv.activate()


class KeepSink:
    """Write-only sink that keeps the very objects it is handed and only looks at them when the
    whole stream has been written (like a transport with a backlog)."""

    def __init__(self):
        self.chunks = []

    def write(self, b):
        self.chunks.append(b)
        return len(b)

    def value(self) -> bytes:
        return b"".join(bytes(c) for c in self.chunks)


class FakeTransport(asyncio.Transport):
    def __init__(self):
        super().__init__()
        self.chunks = []
        self._closing = False

    def write(self, data):
        self.chunks.append(data)          # kept, not copied: a real transport may buffer it

    def is_closing(self):
        return self._closing

    def close(self):
        self._closing = True

    def get_write_buffer_size(self):
        return 0


class DribbleRaw(io.RawIOBase):
    """Raw stream that returns at most 3 bytes per call (a slow socket); BufferedReader on top must
    still satisfy exact-size reads."""

    def __init__(self, data: bytes):
        self.data, self.pos = data, 0

    def readable(self):
        return True

    def readinto(self, b):
        n = min(len(b), 3, len(self.data) - self.pos)
        b[:n] = self.data[self.pos:self.pos + n]
        self.pos += n
        return n


def write_all(kind: str, pre: bytes, post: bytes, msgs: list) -> dict:
    """Write pre, the messages and post to one stream of the given kind."""
    from kio.serial import entity_writer
    marks, ev = [], []
    rsock = wsock = rfd = None
    try:
        if kind == "bytesio":
            sink = io.BytesIO()
            getter = sink.getvalue
            pos = lambda: len(sink.getvalue())       # noqa: E731
        elif kind == "recsink":
            sink = RecSink()
            getter = lambda: RecSink.data(sink)       # noqa: E731
            pos = lambda: len(RecSink.data(sink))     # noqa: E731
        elif kind == "keepsink":
            sink = KeepSink()
            getter = sink.value
            pos = None
        elif kind == "asyncio":
            loop = asyncio.new_event_loop()
            tr = FakeTransport()
            sink = asyncio.StreamWriter(tr, asyncio.StreamReaderProtocol(asyncio.StreamReader(loop=loop), loop=loop),
                                        None, loop)
            getter = lambda: b"".join(bytes(c) for c in tr.chunks)   # noqa: E731
            pos = None
        elif kind == "socketfile":
            rsock, wsock = socket.socketpair()
            sink = wsock.makefile("wb")
            received = []
            th = threading.Thread(target=lambda: received.append(b"".join(iter(lambda: rsock.recv(65536), b""))))
            th.start()

            def getter():
                sink.close()
                wsock.shutdown(socket.SHUT_WR)
                th.join(20)
                return received[0] if received else b""
            pos = None
        elif kind == "bufferedpipe":
            rfd, wfd = os.pipe()
            sink = io.BufferedWriter(io.FileIO(wfd, "wb"), buffer_size=64)
            received = []
            th = threading.Thread(target=lambda: received.append(b"".join(iter(lambda: os.read(rfd, 65536), b""))))
            th.start()

            def getter():
                sink.close()
                th.join(20)
                return received[0] if received else b""
            pos = None
        else:
            raise ValueError(kind)
        out = "ok"
        try:
            sink.write(pre)
            for cls, inst in msgs:
                entity_writer(cls)(sink, inst)
                if pos:
                    marks.append(pos())
            sink.write(post)
        except BaseException as e:  # noqa: BLE001
            out = "raise:" + type(e).__name__ + ":" + str(e)[:80]
        try:
            data = getter()
        except BaseException as e:  # noqa: BLE001
            data = b""
            if out == "ok":
                out = "raise:" + type(e).__name__ + ":" + str(e)[:80]
        if kind == "recsink":
            ev = [e for e in RecSink.events(sink)]
            ev = [{"op": e["op"], "n": e["n"]} for e in ev]
        if kind == "asyncio":
            loop.close()
        return {"kind": kind, "out": out, "data": babs(data), "marks": marks, "ev": ev}
    finally:
        for s in (rsock, wsock):
            if s is not None:
                s.close()
        if rfd is not None:
            try:
                os.close(rfd)
            except OSError:
                pass


def read_all(kind: str, stream: bytes, npre: int, msgs: list, schemas: list) -> dict:
    from kio.serial import entity_reader
    marks, vals, ev = [], [], []
    rsock = wsock = None
    try:
        if kind == "bytesio":
            src = io.BytesIO(stream)
            pos = src.tell
        elif kind == "recsource":
            src = RecSource(stream, budget=8 * len(stream) + 100)
            pos = lambda: RecSource.pos(src)          # noqa: E731
        elif kind == "buffered_dribble":
            src = io.BufferedReader(DribbleRaw(stream), buffer_size=16)
            pos = None
        elif kind == "socketfile":
            rsock, wsock = socket.socketpair()
            th = threading.Thread(target=lambda: (wsock.sendall(stream), wsock.shutdown(socket.SHUT_WR)))
            th.start()
            src = rsock.makefile("rb")
            pos = None
        else:
            raise ValueError(kind)
        out = "ok"
        rest = b""
        try:
            src.read(npre)
            for (cls, _), schema in zip(msgs, schemas):
                res = entity_reader(cls)(src)
                vals.append(project.project_entity(res, schema))
                if pos:
                    marks.append(pos())
            rest = src.read()
        except BaseException as e:  # noqa: BLE001
            out = "raise:" + type(e).__name__ + ":" + str(e)[:80]
        if kind == "recsource":
            evs = RecSource.events(src)
            ev = [{"op": e["op"], "n": e["n"], "got": e["got"]} for e in evs[1:-1]] if out == "ok" else \
                 [{"op": e["op"], "n": e["n"], "got": e["got"]} for e in evs[1:]]
        return {"kind": kind, "out": out, "vals": vals, "marks": marks, "rest": babs(bytes(rest)), "ev": ev}
    finally:
        for s in (rsock, wsock):
            if s is not None:
                s.close()


SINKS = ["bytesio", "recsink", "keepsink", "asyncio", "socketfile", "bufferedpipe"]
SOURCES = ["bytesio", "recsource", "buffered_dribble", "socketfile"]


def gen_stream_inputs(args) -> dict:
    """Phase 1: message sequences (class, value, variant) - the specification encodes the variants."""
    path, lo, hi, seed = args
    classes = sorted(project.all_entity_classes(), key=project.sid_of)
    payloads = [c for c in classes if getattr(c, "__type__").name in ("request", "response")]
    from .absval import BLOBISH

    def has_bytes(schema):
        return any((f["kind"] == "struct" and has_bytes(f["sub"])) or (f["kind"] == "prim" and f["ktype"] in BLOBISH
                                                                       and f["ktype"] != "string")
                   for f in schema["fields"])
    blobby = [c for c in payloads if has_bytes(project.project_schema(c))]
    schemas, seqs, enc_cases = {}, [], []
    for i in range(lo, hi):
        r = random.Random(seed * 9176 + i)
        descs = []
        def add(cls, prof):
            schema = project.project_schema(cls)
            schemas[schema["sid"]] = schema
            big = [65536, 70001, 131073] if prof == "big" else None
            v = Sampler(r.randrange(10**9), profile=prof, big_lengths=big).value(schema, budget=60)
            var = codec_driver.sample_variant(r, canonical=(not schema["flex"]) or r.random() < 0.5)
            descs.append({"sid": schema["sid"], "value": v, "var": var})
            enc_cases.append({"id": f"s{i}m{len(descs) - 1}", "sid": schema["sid"], "value": v, "var": var})
        for _ in range(r.choice([1, 1, 2, 3])):
            pc = r.choice(payloads)
            for cls in (pc.__header_schema__, pc):
                add(cls, r.choice(["mixed", "max", "min"]))
        if i % 8 == 3:             # a payload of 64 KiB or more after other data (buffered sinks, chunked reads)
            pc = r.choice(blobby)
            add(pc.__header_schema__, "mixed")
            add(pc, "big")
        if r.random() < 0.3:       # a lone nested / data entity in between: any class may be on the stream
            add(r.choice(classes), "mixed")
        pre = bytes(r.randrange(256) for _ in range(r.choice([0, 1, 5])))
        post = bytes(r.randrange(256) for _ in range(r.choice([0, 2, 9])))
        seqs.append({"id": f"s{i}", "msgs": descs, "pre": list(pre), "post": list(post)})
    codec_driver.write_shard(path, schemas, enc_cases)
    with open(path + ".seqs", "w") as f:
        json.dump(seqs, f)
    return {"path": path, "cases": len(enc_cases)}


def gen_stream_shard(args) -> dict:
    """Phase 2: write each sequence to every sink kind; read the PEER's stream (variants encoded by
    the specification) from every source kind."""
    in_path, encoded, path = args
    codec_driver.limit_memory(4.0)
    with open(in_path) as f:
        schemas = json.load(f)["schemas"]
    with open(in_path + ".seqs") as f:
        seqs = json.load(f)
    enc = {e["id"]: project.unbabs(e["b"]) for e in encoded}
    import importlib
    cases = []
    for sq in seqs:
        msgs, sch = [], []
        for m in sq["msgs"]:
            mod, _, qual = m["sid"].partition(":")
            cls = getattr(importlib.import_module(mod), qual)
            schema = project.project_schema(cls)
            msgs.append((cls, project.build_entity(m["value"], schema)))
            sch.append(schema)
        pre, post = bytes(sq["pre"]), bytes(sq["post"])
        sinks = [write_all(k, pre, post, msgs) for k in SINKS]
        peer = pre + b"".join(enc[f"{sq['id']}m{j}"] for j in range(len(msgs))) + post
        sources = [read_all(k, peer, len(pre), msgs, sch) for k in SOURCES]
        cases.append({"id": sq["id"], "msgs": sq["msgs"], "pre": babs(pre), "post": babs(post), "peer": babs(peer),
                      "sinks": sinks, "sources": sources})
    with open(path, "w") as f:
        json.dump({"schemas": schemas, "cases": cases}, f, separators=(",", ":"))
    return {"path": path, "cases": len(cases)}


def check_C07(chk: Check, replay) -> None:
    chk.assumptions += ["stream kinds: io.BytesIO, a write-only recording sink, a sink that keeps the objects "
                        "it is handed, asyncio.StreamWriter over a recording transport, socketpair files, "
                        "BufferedWriter over a pipe; sources: BytesIO, read-only recording source, BufferedReader "
                        "over a raw stream returning at most 3 bytes per call, socket file",
                        "sources return fewer bytes than asked only at end of data"]
    chk.cov["rule"] = ("a case is a sequence of 1..3 (header, payload) messages of random API classes (plus lone "
                       "entities) written back to back between junk to one stream of each of 6 sink kinds and read "
                       "back from 4 source kinds; distinct = distinct message sequences")
    res = tlc.run_tlc("MC_Stream", cfg="MC_Stream.cfg", workers=4, timeout=3000, xmx="4g", coverage=True)
    if not tlc.tlc_ok(res):
        raise Machinery(f"MC_Stream failed:\n{res['out'][-2000:]}")
    tlc.require_actions(res, ["Write", "SkipPre", "Read", "Deliver"], "MC_Stream")
    chk.add_tlc("Stream/MC_Stream.cfg", res)
    from .checks_codec import model_check_encoder_machine
    model_check_encoder_machine(chk)       # AppendOnly, SinkIsPrefix: staged bytes are never visible early
    from .checks_codec import _contexts
    _contexts(chk)                         # the same under failed calls before, and two threads in one codec
    n = 4000 if chk.tier == "thorough" else 320
    K = 16
    args = [(os.path.join(chk.scratch, f"stin{i}.json"), i * n // K, (i + 1) * n // K, chk.seed + 1) for i in range(K)]
    ins = pmap(gen_stream_inputs, args)
    from .checks_codec import encode_with_spec
    encoded = encode_with_spec(chk, [i["path"] for i in ins])
    infos = pmap(gen_stream_shard, [(i["path"], encoded[i["path"]], os.path.join(chk.scratch, f"st{k}.json"))
                                    for k, i in enumerate(ins)])
    with open(infos[0]["path"]) as f:
        shard = json.load(f)
    can = copy.deepcopy(shard["cases"][0])
    can["id"] = "canary_kind"
    d = can["sinks"][3]["data"]
    if "raw" in d and d["raw"]:
        d["raw"][-1] ^= 1
    else:
        can["sinks"][3]["out"] = "raise:X"
    can2 = copy.deepcopy(shard["cases"][0])
    can2["id"] = "canary_boundary"
    can2["sources"][1]["marks"][-1] += 1
    shard["cases"] += [can, can2]
    with open(infos[0]["path"], "w") as f:
        json.dump(shard, f, separators=(",", ":"))
    res = tlc.validate_shards("StreamTrace", [i["path"] for i in infos], jobs=16)
    verdicts = {v["id"]: v["fails"] for v in res["verdicts"]}
    if not verdicts.get("canary_kind") or not verdicts.get("canary_boundary"):
        raise Machinery("a canary was not rejected by StreamTrace")
    chk.add_tlc("StreamTrace", res, traces=n * (len(SINKS) + len(SOURCES)))
    chk.notes.append(f"{n} message sequences x {len(SINKS)} sink kinds x {len(SOURCES)} source kinds; 2 canaries rejected")
    check_connections(chk)
    for info in infos:
        with open(info["path"]) as fh:
            for c in json.load(fh)["cases"]:
                if c["id"].startswith("canary"):
                    continue
                chk.count()
                chk.distinct(json.dumps(c["msgs"])[:3000])
                if len(chk.cov["samples"]) < 2:
                    chk.sample({"messages": [m["sid"] for m in c["msgs"]],
                                "sinks": [{k: s[k] for k in ("kind", "out", "marks")} for s in c["sinks"]],
                                "sources": [{k: s[k] for k in ("kind", "out", "marks")} for s in c["sources"]]})
                f = verdicts.get(c["id"])
                if f is None:
                    raise Machinery(f"no verdict for {c['id']}")
                if any(x.startswith("harness_") for x in f):
                    raise Machinery(f"{c['id']}: {f}")
                if f:
                    outs = [s["out"] for s in c["sinks"] + c["sources"] if s["out"] != "ok"]
                    chk.violation("+".join(sorted(f))[:100],
                                  f"messages {[m['sid'] for m in c['msgs']]}: {sorted(f)} {outs[:3]}",
                                  {"kind": "stream", "msgs": c["msgs"]})


# ============================================================ the documented recipe (usage.rst)
def documented_exchange(stream, request_cls, request, correlation_id: int, client_id):
    """docs/pages/usage.rst, synchronous variant, for an arbitrary request class."""
    from kio.index import load_response_from_request
    from kio.serial import entity_reader, entity_writer
    from kio.serial.readers import read_int32
    from kio.serial.writers import write_int32
    from kio.static.primitive import i32
    header_cls = request_cls.__header_schema__
    kw = {"request_api_key": request_cls.__api_key__, "request_api_version": request_cls.__version__,
          "correlation_id": correlation_id}
    if "client_id" in {f.name for f in __import__("dataclasses").fields(header_cls)}:
        kw["client_id"] = client_id
    request_header = header_cls(**kw)
    with io.BytesIO() as message_buffer:
        entity_writer(header_cls)(message_buffer, request_header)
        entity_writer(request_cls)(message_buffer, request)
        write_int32(stream, i32(message_buffer.tell()))
        stream.write(message_buffer.getvalue())
        stream.flush()
    response_length = read_int32(stream)
    response_buffer = io.BytesIO(stream.read(response_length))
    response_cls = load_response_from_request(request_cls)
    response_header = entity_reader(response_cls.__header_schema__)(response_buffer)
    assert response_header.correlation_id == correlation_id
    response = entity_reader(response_cls)(response_buffer)
    return response_cls, response_header, response, len(response_buffer.read())


def _header_value(hschema: dict, key: int, version: int, corr: int, client_id) -> dict:
    vals = []
    for fs in hschema["fields"]:
        if fs["name"] == "request_api_key":
            vals.append(project.aint(key))
        elif fs["name"] == "request_api_version":
            vals.append(project.aint(version))
        elif fs["name"] == "correlation_id":
            vals.append(project.aint(corr))
        elif fs["name"] == "client_id":
            vals.append(project.NULL if client_id is None else project.ablob(client_id.encode()))
        else:
            raise Machinery(f"unexpected request header field {fs['name']}")
    return {"rec": vals}


def gen_connection_inputs(args) -> dict:
    path, lo, hi, seed, pinned_keys = args
    import importlib
    classes = sorted(project.all_entity_classes(), key=project.sid_of)
    requests = [c for c in classes if getattr(c, "__type__").name == "request"]
    by_sid = {project.sid_of(c): c for c in classes}
    schemas, conns, enc_cases = {}, [], []
    rng = random.Random(seed)
    chosen = requests[lo:hi]
    for ci in range(0, len(chosen), 3):
        xs = []
        for cls in chosen[ci:ci + 3]:
            r = random.Random(seed * 7 + hash(project.sid_of(cls)) % 10**6)
            parts = cls.__module__.split(".")
            api, version = parts[2], int(parts[3][1:])
            rs = project.project_schema(cls)
            hs = project.project_schema(cls.__header_schema__)
            resp_mod = importlib.import_module(".".join(parts[:4] + ["response"]))
            resp_cls = next(c for c in project.module_classes(resp_mod) if c.__type__.name == "response")
            ps = project.project_schema(resp_cls)
            # the response header Kafka prescribes (v1 for flexible versions, v0 otherwise, v0 for ApiVersions)
            rhv = 0 if pinned_keys[api] == 18 or not ps["flex"] else 1
            phs = project.project_schema(importlib.import_module(f"kio.schema.response_header.v{rhv}.header").ResponseHeader)
            for s in (rs, hs, ps, phs):
                schemas[s["sid"]] = s
            corr = r.choice([0, 1, 2**31 - 1, r.randrange(2**31)])
            client_id = r.choice(["test", None, "", "klient-é"])
            var = codec_driver.sample_variant(r, canonical=(not ps["flex"]) or r.random() < 0.5)
            x = {"req_sid": rs["sid"], "hdr_sid": hs["sid"], "resp_sid": ps["sid"], "resp_hdr_sid": phs["sid"],
                 "req_value": Sampler(r.randrange(10**9), profile=r.choice(["mixed", "max"])).value(rs, budget=60),
                 "hdr_value": _header_value(hs, pinned_keys[api], version, corr, client_id),
                 "resp_value": Sampler(r.randrange(10**9), profile=r.choice(["mixed", "max"])).value(ps, budget=60),
                 "resp_hdr_value": {"rec": [project.aint(corr)]},
                 "var": var if phs["flex"] else dict(var, unk=var["unk"]), "api_key": pinned_keys[api], "version": version,
                 "corr": corr, "client_id": client_id}
            if not phs["flex"] and not ps["flex"]:
                x["var"] = {"expl": 0, "unk": []}
            k = len(enc_cases)
            enc_cases.append({"id": f"x{lo}_{k}h", "sid": phs["sid"], "value": x["resp_hdr_value"], "var": x["var"]})
            enc_cases.append({"id": f"x{lo}_{k}p", "sid": ps["sid"], "value": x["resp_value"], "var": x["var"]})
            x["enc_ids"] = [f"x{lo}_{k}h", f"x{lo}_{k}p"]
            xs.append(x)
        conns.append({"id": f"conn{lo}_{ci}", "exchanges": xs})
    codec_driver.write_shard(path, schemas, enc_cases)
    with open(path + ".conns", "w") as f:
        json.dump(conns, f)
    return {"path": path, "cases": len(enc_cases)}


def run_connections(args) -> dict:
    in_path, encoded, path = args
    import importlib
    with open(in_path) as f:
        schemas = json.load(f)["schemas"]
    with open(in_path + ".conns") as f:
        conns = json.load(f)
    enc = {e["id"]: project.unbabs(e["b"]) for e in encoded}
    nx = 0
    for conn in conns:
        csock, bsock = socket.socketpair()
        frames = []
        for x in conn["exchanges"]:
            body = enc[x["enc_ids"][0]] + enc[x["enc_ids"][1]]
            frames.append(len(body).to_bytes(4, "big") + body)
        received = []

        def broker():
            f = bsock.makefile("rwb")
            try:
                for fr in frames:
                    size = f.read(4)
                    if len(size) < 4:
                        break
                    body = f.read(int.from_bytes(size, "big", signed=True))
                    received.append(size + body)
                    f.write(fr)
                    f.flush()
            except Exception:  # noqa: BLE001
                pass

        th = threading.Thread(target=broker, daemon=True)
        th.start()
        stream = csock.makefile("rwb")
        csock.settimeout(20)
        for i, x in enumerate(conn["exchanges"]):
            mod, _, qual = x["req_sid"].partition(":")
            cls = getattr(importlib.import_module(mod), qual)
            project.project_schema(cls)                    # registers the classes of this schema tree
            req = project.build_entity(x["req_value"], schemas[x["req_sid"]])
            x.update(out="ok", got_hdr=project.NULL, got_value=project.NULL, leftover=0, resolved_sid="")
            try:
                rcls, rh, resp, left = documented_exchange(stream, cls, req, x["corr"], x["client_id"])
                x["resolved_sid"] = project.sid_of(rcls)
                x["got_hdr"] = project.project_entity(rh, schemas[x["resp_hdr_sid"]])
                x["got_value"] = project.project_entity(resp, schemas[x["resp_sid"]])
                x["leftover"] = left
            except BaseException as e:  # noqa: BLE001
                x["out"] = "raise:" + type(e).__name__ + ":" + str(e)[:80]
                break
            finally:
                nx += 1
        try:
            stream.close()
            csock.close()
        except Exception:  # noqa: BLE001
            pass
        th.join(5)
        bsock.close()
        for i, x in enumerate(conn["exchanges"]):
            x["sent"] = babs(received[i]) if i < len(received) else {"raw": []}
            x["broker_frame"] = babs(frames[i])
            x.setdefault("out", "not_run")
            for k in ("got_hdr", "got_value"):
                x.setdefault(k, project.NULL)
            x.setdefault("leftover", 0)
            x.setdefault("resolved_sid", "")
            x.pop("client_id", None)          # JSON null cannot cross to TLC; it is part of hdr_value anyway
            x.pop("enc_ids", None)
    with open(path, "w") as f:
        json.dump({"schemas": schemas, "cases": conns}, f, separators=(",", ":"))
    return {"path": path, "cases": len(conns), "exchanges": nx}


def check_connections(chk: Check) -> None:
    """The documented recipe against a specification-driven broker (Connection.tla / ConnectionTrace.tla)."""
    import gzip
    from .checks_codec import encode_with_spec
    from .checks_codegen import PIN_PATH
    res = tlc.run_tlc("MC_Connection", cfg="MC_Connection.cfg", workers=2, timeout=1200, xmx="2g", coverage=True)
    if not tlc.tlc_ok(res):
        raise Machinery(f"MC_Connection failed:\n{res['out'][-2000:]}")
    tlc.require_actions(res, ["Send", "BrokerRead", "BrokerAnswer", "ClientRead"], "MC_Connection")
    chk.add_tlc("Connection/MC_Connection.cfg", res)
    pinned = json.load(gzip.open(PIN_PATH, "rt"))
    pinned_keys = {a: k for a, e, k, lo, hi, fl in pinned["families"] if e == "request"}
    nreq = len(pinned_keys and [1 for c in project.all_entity_classes() if c.__type__.name == "request"])
    K = 16
    step = (nreq + K - 1) // K
    quick = chk.tier != "thorough"
    rng = random.Random(chk.seed)
    slices = [(i * step, min(nreq, (i + 1) * step)) for i in range(K)]
    if quick:      # a seeded third of the request classes
        slices = [(lo, lo + max(3, (hi - lo) // 3)) for lo, hi in slices]
    ins = pmap(gen_connection_inputs, [(os.path.join(chk.scratch, f"cx{i}.json"), lo, hi, chk.seed + 23, pinned_keys)
                                       for i, (lo, hi) in enumerate(slices) if hi > lo])
    encoded = encode_with_spec(chk, [i["path"] for i in ins])
    infos = pmap(run_connections, [(i["path"], encoded[i["path"]], os.path.join(chk.scratch, f"cxo{k}.json"))
                                   for k, i in enumerate(ins)])
    with open(infos[0]["path"]) as f:
        shard = json.load(f)
    can = copy.deepcopy(shard["cases"][0])
    can["id"] = "canary_corr"
    can["exchanges"][0]["hdr_value"]["rec"][2] = project.aint(can["exchanges"][0]["corr"] ^ 1)
    shard["cases"].append(can)
    with open(infos[0]["path"], "w") as f:
        json.dump(shard, f, separators=(",", ":"))
    res = tlc.validate_shards("ConnectionTrace", [i["path"] for i in infos], jobs=16)
    verdicts = {v["id"]: v["fails"] for v in res["verdicts"]}
    if not verdicts.get("canary_corr"):
        raise Machinery("canary was not rejected by ConnectionTrace")
    nx = sum(i["exchanges"] for i in infos)
    chk.add_tlc("ConnectionTrace", res, traces=nx)
    chk.notes.append(f"documented recipe: {nx} request/response exchanges on {sum(i['cases'] for i in infos)} socket "
                     f"connections against a specification-driven broker; canary rejected")
    for info in infos:
        with open(info["path"]) as fh:
            for c in json.load(fh)["cases"]:
                if c["id"].startswith("canary"):
                    continue
                f = verdicts.get(c["id"])
                if f is None:
                    raise Machinery(f"no verdict for {c['id']}")
                if any(x.startswith("harness_") for x in f):
                    raise Machinery(f"{c['id']}: {f} {[x['out'] for x in c['exchanges']]}")
                chk.count(len(c["exchanges"]))
                if f:
                    outs = [(x["req_sid"], x["out"]) for x in c["exchanges"] if x["out"] != "ok"]
                    chk.violation("recipe:" + "+".join(sorted(f))[:90],
                                  f"documented recipe, requests {[x['req_sid'] for x in c['exchanges']]}: {sorted(f)} {outs[:2]}",
                                  {"kind": "connection", "exchanges": [x["req_sid"] for x in c["exchanges"]]})
