"""Dispatcher: python -m harness.run <Cxx> [--tier ..] [--replay ..]"""
import sys

from . import checklib


def registry():
    from . import checks_codegen, checks_codec, checks_prim, checks_records, checks_registry, checks_schema, checks_stream, checks_value
    reg = {
        "C01": checks_codec.check_C01,
        "C02": checks_codec.check_C02,
        "C03": checks_codec.check_C03,
        "C05": checks_codec.check_C05,
        "C06": checks_codec.check_C06,
        "C10": checks_codec.check_C10,
        "C08": checks_schema.check_C08,
        "C09": checks_schema.check_C09,
        "C11": checks_prim.check_C11,
        "C12": checks_prim.check_C12,
        "C13": checks_schema.check_C13,
        "C14": checks_schema.check_C14,
        "C17": checks_records.check_C17,
        "C18": checks_records.check_C18,
        "C19": checks_registry.check_C19,
        "C15": checks_value.check_C15,
        "C07": checks_stream.check_C07,
        "C04": checks_codegen.check_C04,
        "C16": checks_codegen.check_C16,
    }
    return reg


def main(argv):
    if not argv:
        print("usage: check <property id> [--tier quick|thorough] [--replay PATH]", file=sys.stderr)
        return 2
    pid = argv[0]
    reg = registry()
    if pid not in reg:
        print(f"no check registered for {pid}", file=sys.stderr)
        return 2
    return checklib.main_wrapper(reg[pid], pid, argv[1:])


if __name__ == "__main__":
    sys.exit(main(sys.argv[1:]))
