"""Rows for spec/PrimTrace.tla: every public primitive reader/writer of kio.serial (C11) and
the primitive value types of kio.static.primitive (C12), each call observed at its return or
raise."""
from __future__ import annotations

import datetime
import inspect
import io
import json
import math
import random
import uuid

from . import kioenv, project
from .project import NULL, ablob, afloat, aint, babs
from .streams import RecSink, RecSource

kioenv.activate()

MS = datetime.timedelta(milliseconds=1)
US = datetime.timedelta(microseconds=1)


def public_functions():
    from kio.serial import readers, writers
    out = {}
    for m in (readers, writers):
        for n, f in inspect.getmembers(m, inspect.isfunction):
            if f.__module__ == m.__name__ and not n.startswith("_"):
                out[n] = f
    return out


def classify_exc(e: BaseException) -> str:
    from kio.serial.errors import BufferUnderflow, OutOfBoundValue, UnexpectedNull
    if isinstance(e, BufferUnderflow):
        return "underflow"
    if isinstance(e, UnexpectedNull):
        return "unexpected_null"
    if isinstance(e, OutOfBoundValue):
        return "out_of_bound"
    if isinstance(e, OverflowError):
        return "overflow"
    if isinstance(e, ValueError):
        return "value_error"
    return "other:" + type(e).__name__


# ------------------------------------------------------------------ value menus
def pow2_neighbourhood(lo: int, hi: int, rng: random.Random, extra: int) -> list[int]:
    vals = {lo, lo + 1, hi - 1, hi, 0, 1, -1} if lo < 0 else {lo, lo + 1, hi - 1, hi}
    k = 0
    while (1 << k) <= max(abs(lo), abs(hi)) * 2:
        for d in (-2, -1, 0, 1, 2):
            for s in (1, -1):
                vals.add(s * (1 << k) + d)
        k += 1
    vals.update(rng.randint(lo, hi) for _ in range(extra))
    return sorted(vals)


def td_abs(v: datetime.timedelta) -> dict:
    q, r = divmod(v, MS)
    return {"td": [aint(q), r // US]}


def result_abs(fn: str, x) -> dict:
    """Abstract value of a reader's result (by the reader's declared result family)."""
    if x is None:
        return NULL
    if isinstance(x, bool):
        return {"int": int(x)}
    if isinstance(x, int):
        return aint(int(x))
    if isinstance(x, float):
        return afloat(x)
    if isinstance(x, str):
        return ablob(x.encode("utf-8", "surrogatepass"))
    if isinstance(x, (bytes, bytearray)):
        return ablob(bytes(x))
    if isinstance(x, uuid.UUID):
        return ablob(x.bytes)
    if isinstance(x, datetime.timedelta):
        q, r = divmod(x, MS)
        return aint(q) if not r else project.BAD_SUBMS
    if isinstance(x, datetime.datetime):
        if x.tzinfo is None:
            return project.BAD
        q, r = divmod(x - project.EPOCH, MS)
        return aint(q) if not r else project.BAD_SUBMS
    if isinstance(x, tuple):
        return {"seq": [result_abs(fn, i) for i in x]}
    return project.BAD


# ------------------------------------------------------------------ writers
def _call_writer(fn_name: str, call) -> dict:
    sink = RecSink()
    out = "ok"
    try:
        call(sink)
    except BaseException as e:  # noqa: BLE001
        out = classify_exc(e)
        if out == "ok":
            out = "raise"
    return {"out": out, "b": babs(RecSink.data(sink)),
            "other": any(ev["op"] == "other" for ev in RecSink.events(sink))}


def writer_rows(tier: str, seed: int) -> list[dict]:
    from kio.schema.errors import ErrorCode
    from kio.serial import writers as w
    rng = random.Random(seed)
    rows = []

    def add(fn, x_abs, call):
        r = _call_writer(fn, call)
        rows.append({"k": "w", "fn": fn, "x": x_abs, **r})

    thorough = tier == "thorough"
    int_fns = {
        "write_int8": (-(2**7), 2**7 - 1), "write_int16": (-(2**15), 2**15 - 1),
        "write_int32": (-(2**31), 2**31 - 1), "write_int64": (-(2**63), 2**63 - 1),
        "write_uint8": (0, 2**8 - 1), "write_uint16": (0, 2**16 - 1),
        "write_uint32": (0, 2**32 - 1), "write_uint64": (0, 2**64 - 1),
        "write_legacy_array_length": (-(2**31), 2**31 - 1),
    }
    for fn, (lo, hi) in int_fns.items():
        f = getattr(w, fn)
        if hi - lo < 300 or (hi - lo < 70000 and thorough):
            vals = list(range(lo - 3, hi + 4))
        elif hi - lo < 70000:
            vals = sorted(set(pow2_neighbourhood(lo, hi, rng, 200)) | set(range(lo, hi + 1, 257))
                          | {lo - 1, hi + 1, lo - 2, hi + 2})
        else:
            vals = sorted(set(pow2_neighbourhood(lo, hi, rng, 400)) | {lo - 1, hi + 1, lo - 2**8, hi + 2**8,
                                                                      hi * 2, lo * 2 if lo else -1})
        for v in vals:
            if -(2**71) <= v < 2**71:
                add(fn, aint(v), lambda s, f=f, v=v: f(s, v))
    # varints (in-domain only: the varint writers are not required to reject)
    top = 2**21 if thorough else 2**14
    uv = sorted(set(range(0, top)) | set(v for v in pow2_neighbourhood(0, 2**35 - 1, rng, 500) if 0 <= v < 2**35))
    for v in uv:
        add("write_unsigned_varint", aint(v), lambda s, v=v: w.write_unsigned_varint(s, v))
    for v in [v for v in pow2_neighbourhood(0, 2**70 - 1, rng, 500) if 0 <= v < 2**70] + list(range(0, 2**10)):
        add("write_unsigned_varlong", aint(v), lambda s, v=v: w.write_unsigned_varlong(s, v))
    sv = sorted(set(range(-top // 2, top // 2)) | set(v for v in pow2_neighbourhood(-(2**31), 2**31 - 1, rng, 500)
                                                    if -(2**31) <= v < 2**31))
    for v in sv:
        add("write_signed_varint", aint(v), lambda s, v=v: w.write_signed_varint(s, v))
    for v in [v for v in pow2_neighbourhood(-(2**63), 2**63 - 1, rng, 500) if -(2**63) <= v < 2**63] \
            + list(range(-512, 512)):
        add("write_signed_varlong", aint(v), lambda s, v=v: w.write_signed_varlong(s, v))
    for v in (False, True):
        add("write_boolean", {"int": int(v)}, lambda s, v=v: w.write_boolean(s, v))
    floats = [0.0, -0.0, 1.0, -1.5, 5e-324, 1.7976931348623157e308, -2.2250738585072014e-308, 0.1,
              float("inf"), float("-inf"), 123456.789] + [rng.uniform(-1, 1) * 10 ** rng.randint(-300, 300)
                                                          for _ in range(200)]
    # NaNs are doubles too: Kafka writes the raw bits (ByteBuffer.putDouble), so sign and payload of a quiet
    # NaN must reach the wire (signalling NaNs are left out: whether a platform quiets them on a move is not
    # kio's business)
    import struct as _struct
    floats += [_struct.unpack(">d", q.to_bytes(8, "big"))[0]
               for q in (0x7FF8000000000000, 0xFFF8000000000000, 0x7FF8000000000001, 0x7FFC0000DEADBEEF,
                         0xFFFFFFFFFFFFFFFF, 0x7FF8000000000000 | rng.getrandbits(51))]
    for v in floats:
        add("write_float64", afloat(v), lambda s, v=v: w.write_float64(s, v))
    # strings / bytes
    lens = [0, 1, 2, 126, 127, 128, 129, 16383, 16384, 32766, 32767, 32768, 40000]
    for n in lens:
        for text in ("a" * n, ("é" * (n // 2) + "a" * (n % 2)) if n else "", ("日" * (n // 3) + "x" * (n % 3)) if n else ""):
            bs = text.encode()
            for fn in ("write_compact_string", "write_nullable_compact_string", "write_legacy_string",
                       "write_nullable_legacy_string"):
                if "compact" in fn and len(bs) > 32767:
                    continue      # Kafka caps strings at 32767 bytes in both forms; the compact writers are
                                  # neither required to accept nor to reject longer ones
                add(fn, ablob(bs), lambda s, fn=fn, text=text: getattr(w, fn)(s, text))
        raw = bytes([0xFF]) + bytes([n % 251]) * (n - 1) if n else b""
        for fn in ("write_compact_string", "write_nullable_compact_string", "write_legacy_bytes",
                   "write_nullable_legacy_bytes"):
            add(fn, ablob(raw), lambda s, fn=fn, raw=raw: getattr(w, fn)(s, raw))
    for fn in ("write_nullable_compact_string", "write_nullable_legacy_string", "write_nullable_legacy_bytes"):
        add(fn, NULL, lambda s, fn=fn: getattr(w, fn)(s, None))
    add("write_empty_tagged_fields", NULL, lambda s: w.write_empty_tagged_fields(s))
    for n in [-1, 0, 1, 126, 127, 128, 16382, 16383, 16384, 2**21 - 2, 2**21 - 1, 2**28, 2**31 - 2]:
        add("write_compact_array_length", {"int": n} if n < 2**30 else aint(n),
            lambda s, n=n: w.write_compact_array_length(s, n))
    for u in [None, uuid.UUID(int=1), uuid.UUID(int=2**128 - 1)] + [uuid.UUID(int=rng.getrandbits(128)) for _ in range(50)]:
        add("write_uuid", NULL if u is None else ablob(u.bytes), lambda s, u=u: w.write_uuid(s, u))
    caw = w.compact_array_writer(w.write_int8)
    law = w.legacy_array_writer(w.write_int16)
    for n in [None, 0, 1, 2, 126, 127, 128, 300, 32767, 32768, 70000]:
        items = None if n is None else tuple(rng.randint(-128, 127) for _ in range(n)) if n < 1000 else \
            (1,) + (0,) * (n - 2) + (-1,)
        xa = NULL if items is None else {"seq": [aint(i) for i in items]}
        add("compact_array_writer", xa, lambda s, items=items: caw(s, items))
        add("legacy_array_writer", xa, lambda s, items=items: law(s, items))
    for tag in [0, 1, 127, 128, 16383, 16384, 2**31 - 1]:
        for n in [0, 1, 126, 127, 128, 16383]:
            text = "t" * n
            add("write_tagged_field", {"seq": [aint(tag), ablob(text.encode())]},
                lambda s, tag=tag, text=text: w.write_tagged_field(s, tag, w.write_compact_string, text))
    for e in ErrorCode:
        add("write_error_code", aint(int(e)), lambda s, e=e: w.write_error_code(s, e))
    # durations: exact microseconds, including sub-millisecond ones and ties
    tds = []
    for ms in pow2_neighbourhood(-(2**31), 2**31 - 1, rng, 200):
        if -(2**31) <= ms < 2**31:
            tds.append(("write_timedelta_i32", datetime.timedelta(milliseconds=ms)))
    lo64 = datetime.timedelta.min // MS
    hi64 = (datetime.timedelta.max - datetime.timedelta(days=1)) // MS
    for ms in pow2_neighbourhood(lo64, hi64, rng, 400):
        if lo64 <= ms <= hi64:
            tds.append(("write_timedelta_i64", datetime.timedelta(milliseconds=ms)))
    for fn in ("write_timedelta_i32", "write_timedelta_i64"):
        for us in (1, 499, 500, 501, 999, 1500, 2500, -500, -1500, -1, 1000001, 123456789):
            tds.append((fn, datetime.timedelta(microseconds=us)))
    for fn, v in tds:
        add(fn, td_abs(v), lambda s, fn=fn, v=v: getattr(w, fn)(s, v))
    # timestamps
    for ms in [0, 1, 999, 1000, 1716899460123, 253402300799999, 253402300799000, 4102444800001] + \
            [rng.randrange(0, 253402300800000) for _ in range(300)]:
        v = project.EPOCH + datetime.timedelta(milliseconds=ms)
        if rng.random() < 0.3 and 86400000 < ms < 253402300799999 - 86400000:
            v = v.astimezone(datetime.timezone(datetime.timedelta(hours=rng.choice([-11, -3, 2, 5, 9]), minutes=30)))
        add("write_datetime_i64", aint(ms), lambda s, v=v: w.write_datetime_i64(s, v))
        add("write_nullable_datetime_i64", aint(ms), lambda s, v=v: w.write_nullable_datetime_i64(s, v))
    add("write_nullable_datetime_i64", NULL, lambda s: w.write_nullable_datetime_i64(s, None))
    return rows


# ------------------------------------------------------------------ readers
def _call_reader(fn: str, f, bs: bytes) -> dict:
    from kio.serial import readers as r
    src = RecSource(bs)
    out, val, n = "ok", NULL, 0
    try:
        if fn == "read_exact":
            src.read(1) if bs else None
            res = f(src, bs[0]) if bs else f(src, 1)
        elif fn == "tz_aware_from_i64":
            res = f(int.from_bytes(bs, "big", signed=True))
            src.read(8)
        elif fn == "compact_array_reader":
            res = r.compact_array_reader(r.read_int8)(src)
        elif fn == "legacy_array_reader":
            res = r.legacy_array_reader(r.read_int16)(src)
        else:
            res = f(src)
        val = result_abs(fn, res)
    except BaseException as e:  # noqa: BLE001
        out = classify_exc(e)
    return {"out": out, "v": val, "n": RecSource.pos(src)}


def reader_rows(tier: str, seed: int) -> list[dict]:
    from kio.serial import readers as r
    rng = random.Random(seed + 1)
    fns = {n: f for n, f in public_functions().items() if n.startswith("read") or n in
           ("tz_aware_from_i64", "compact_array_reader", "legacy_array_reader")}
    thorough = tier == "thorough"
    rows = []

    def add(fn, bs):
        rows.append({"k": "r", "fn": fn, "b": babs(bs), **_call_reader(fn, fns[fn], bs)})

    fixed = {"read_boolean": 1, "read_int8": 1, "read_uint8": 1, "read_int16": 2, "read_uint16": 2,
             "read_error_code": 2, "read_int32": 4, "read_uint32": 4, "read_legacy_array_length": 4,
             "read_timedelta_i32": 4, "read_int64": 8, "read_uint64": 8, "read_timedelta_i64": 8,
             "read_float64": 8, "read_datetime_i64": 8, "read_nullable_datetime_i64": 8,
             "tz_aware_from_i64": 8}
    edge = [0x00, 0x01, 0x7F, 0x80, 0xFE, 0xFF]
    for fn, n in fixed.items():
        if n == 1:
            inputs = [bytes([b]) for b in range(256)]
        elif n == 2:
            inputs = [bytes([a, b]) for a in (range(256) if thorough else list(range(0, 256, 5)) + edge)
                      for b in (range(256) if thorough else list(range(0, 256, 7)) + edge)]
        else:
            inputs = [bytes(rng.choice(edge) for _ in range(n)) for _ in range(200)] + \
                     [bytes(rng.randrange(256) for _ in range(n)) for _ in range(200)]
            if fn in ("read_datetime_i64", "read_nullable_datetime_i64", "tz_aware_from_i64"):
                inputs += [ms.to_bytes(8, "big", signed=True) for ms in
                           [-1, -2, 0, 1, 999, 1716899460123, 253402300799999, 253402300800000, 2**62]]
                inputs += [rng.randrange(0, 253402300800000).to_bytes(8, "big") for _ in range(300)]
            if fn == "read_timedelta_i64":
                inputs += [rng.randrange(-(2**56), 2**56).to_bytes(8, "big", signed=True) for _ in range(300)]
        for bs in inputs:
            add(fn, bs + (b"" if fn == "tz_aware_from_i64" else b"\xAA" * rng.choice([0, 0, 3])))
            if rng.random() < 0.05 and fn != "tz_aware_from_i64":
                add(fn, bs[: rng.randrange(0, n)])        # short input
    # varint readers: every byte string up to 2 bytes, 3-byte strings over an alphabet
    alpha3 = sorted(set(edge + [0x02, 0x3F, 0x40, 0x81, 0xC0, 0xAA, 0x55] + ([*range(256)] if thorough else [])))
    short = [b""] + [bytes([a]) for a in range(256)] + [bytes([a, b]) for a in range(256) for b in range(256)]
    three = [bytes([a, b, c]) for a in alpha3 for b in (alpha3 if not thorough else edge + [0x81]) for c in edge + [0x7E]]
    for fn in ("read_unsigned_varint", "read_signed_varint", "read_unsigned_varlong", "read_signed_varlong",
               "read_compact_array_length"):
        sel = short if fn in ("read_unsigned_varint", "read_signed_varint") or thorough else short[::7]
        for bs in sel + three:
            add(fn, bs)
        for _ in range(400):
            k = rng.choice([4, 5, 6, 9, 10, 11])
            add(fn, bytes(rng.choice([0x80, 0xFF, 0x81, 0x7F, 0x01, 0x00]) | (0x80 if i < k - 1 and rng.random() < 0.8 else 0)
                          for i in range(k)))
    # length-prefixed
    blob_fns = ["read_compact_string_as_bytes", "read_compact_string_as_bytes_nullable", "read_compact_string",
                "read_compact_string_nullable", "read_legacy_bytes", "read_nullable_legacy_bytes",
                "read_legacy_string", "read_nullable_legacy_string"]
    payloads = [b"", b"a", "é".encode(), b"\xff", b"\xed\xa0\x80", b"\xc0\x80", "日本".encode(), b"x" * 126,
                b"y" * 127, b"z" * 128, b"w" * 16383, b"v" * 16384, b"u" * 32767]
    for fn in blob_fns:
        compact = "compact" in fn
        for p in payloads:
            n = len(p)
            if compact:
                sink = bytearray()
                v = n + 1
                while True:
                    b7 = v & 0x7F
                    v >>= 7
                    sink.append(b7 | (0x80 if v else 0))
                    if not v:
                        break
                head = bytes(sink)
            elif "string" in fn:
                head = n.to_bytes(2, "big")
            else:
                head = n.to_bytes(4, "big")
            add(fn, head + p + b"\x00\x01")
            if n:
                add(fn, head + p[:-1])                       # one byte short
        for head in ([b"\x00", b"\x80", b"\xff\xff\xff\xff\x0f", b"\xff\xff\xff\xff\xff", b"\x05ab"] if compact else
                     [b"\xff\xff" if "string" in fn else b"\xff\xff\xff\xff", b"\xff\xfe" if "string" in fn else b"\xff\xff\xff\xfe",
                      b"\x7f\xff" if "string" in fn else b"\x7f\xff\xff\xff", b"\x00", b"\x00\x05ab"]):
            add(fn, head)
            add(fn, head + b"abc")
    for u in [bytes(16), bytes(15) + b"\x01", b"\xff" * 16, bytes(15)] + [bytes(rng.randrange(256) for _ in range(16)) for _ in range(50)]:
        add("read_uuid", u + b"\x09")
    for bs in [b"", b"\x00", b"\x03abc", b"\x03ab", b"\x01\xff\x00", b"\xffabc"]:
        add("read_exact", bs)
    for bs in [b"\x00", b"\x01", b"\x02\x7f", b"\x03\x80\x7f", b"\x03\x01", b"\x80\x01" + bytes(range(127)), b"\xff\xff\xff\xff\x0f\x01"]:
        add("compact_array_reader", bs)
    for bs in [b"\xff\xff\xff\xff", b"\x00\x00\x00\x00", b"\x00\x00\x00\x02\x00\x01\xff\xfe", b"\x00\x00\x00\x02\x00\x01\xff",
               b"\x7f\xff\xff\xff\x00\x01", b"\xff\xff\xff\xfe", b"\x00\x00"]:
        add("legacy_array_reader", bs)
    covered = {row["fn"] for row in rows}
    return rows, covered


READER_OF = {"write_unsigned_varint": "read_unsigned_varint", "write_unsigned_varlong": "read_unsigned_varlong",
             "write_signed_varint": "read_signed_varint", "write_signed_varlong": "read_signed_varlong",
             "write_int8": "read_int8", "write_int16": "read_int16", "write_int32": "read_int32",
             "write_int64": "read_int64", "write_uint8": "read_uint8", "write_uint16": "read_uint16",
             "write_uint32": "read_uint32", "write_uint64": "read_uint64", "write_float64": "read_float64",
             "write_uuid": "read_uuid", "write_boolean": "read_boolean", "write_error_code": "read_error_code",
             "write_timedelta_i32": "read_timedelta_i32", "write_timedelta_i64": "read_timedelta_i64",
             "write_datetime_i64": "read_datetime_i64", "write_nullable_datetime_i64": "read_nullable_datetime_i64",
             "write_compact_string": "read_compact_string", "write_nullable_compact_string": "read_compact_string_nullable",
             "write_legacy_string": "read_legacy_string", "write_nullable_legacy_string": "read_nullable_legacy_string"}


def reader_after_writer_rows(wrows: list[dict], seed: int) -> list[dict]:
    """Reader after writer: what each writer emitted (inside its domain) is offered to its reader."""
    rng = random.Random(seed + 9)
    fns = public_functions()
    rows = []
    for w in wrows:
        rfn = READER_OF.get(w["fn"])
        if rfn is None or w["out"] != "ok":
            continue
        if w["fn"] in ("write_unsigned_varint", "write_signed_varint") and rng.random() > 0.05:
            continue              # 30k small varints: a sample is enough, the large ones are all kept
        if w["fn"] in ("write_compact_string", "write_nullable_compact_string", "write_legacy_string",
                       "write_nullable_legacy_string") and "rle" not in w["x"] and "blob" not in w["x"] and "null" not in w["x"]:
            continue
        bs = project.unbabs(w["b"])
        try:
            bs.decode("utf-8") if "string" in w["fn"] and False else None
        except Exception:  # noqa: BLE001
            pass
        rows.append({"k": "r", "fn": rfn, "b": babs(bs), **_call_reader(rfn, fns[rfn], bs)})
    return rows


# ------------------------------------------------------------------ value types (C12)
def type_rows(seed: int) -> list[dict]:
    from kio.serial import readers as rd, writers as wr
    from kio.static import primitive as p
    rng = random.Random(seed + 2)
    rows = []
    int_types = {"i8": (p.i8, wr.write_int8, rd.read_int8), "i16": (p.i16, wr.write_int16, rd.read_int16),
                 "i32": (p.i32, wr.write_int32, rd.read_int32), "i64": (p.i64, wr.write_int64, rd.read_int64),
                 "u8": (p.u8, wr.write_uint8, rd.read_uint8), "u16": (p.u16, wr.write_uint16, rd.read_uint16),
                 "u32": (p.u32, wr.write_uint32, rd.read_uint32), "u64": (p.u64, wr.write_uint64, rd.read_uint64),
                 "uvarint": (p.uvarint, None, None), "uvarlong": (p.uvarlong, None, None),
                 "svarint": (p.svarint, None, None), "svarlong": (p.svarlong, None, None)}
    others = {"f64": (p.f64, wr.write_float64, rd.read_float64),
              "i32Timedelta": (p.i32Timedelta, wr.write_timedelta_i32, rd.read_timedelta_i32),
              "i64Timedelta": (p.i64Timedelta, wr.write_timedelta_i64, rd.read_timedelta_i64),
              "TZAware": (p.TZAware, wr.write_datetime_i64, rd.read_datetime_i64),
              "TZAwareMicros": (p.TZAwareMicros, None, None)}

    def cand_abs(v) -> dict:
        if isinstance(v, bool):
            return {"int": int(v)}
        if isinstance(v, int):
            return aint(v) if -(2**71) <= v < 2**71 else {"other": "hugeint"}
        if isinstance(v, float):
            return {"flt": "nan" if v != v else "inf" if math.isinf(v) else "finite"}
        if isinstance(v, datetime.timedelta):
            q, r = divmod(v, MS)
            return {"td": [aint(q), r // US]}
        if isinstance(v, datetime.datetime):
            aware = v.tzinfo is not None and v.tzinfo.utcoffset(v) is not None
            base = v if aware else v.replace(tzinfo=datetime.timezone.utc)
            q, r = divmod(base - project.EPOCH, MS)
            return {"dt": [int(aware), aint(q), r // US]}
        return {"other": type(v).__name__}

    def observe(tname, T, wfn, rfn, v):
        ierr = None
        try:
            isinst = bool(isinstance(v, T))
        except Exception as e:  # noqa: BLE001
            isinst, ierr = False, "isinstance_raised:" + type(e).__name__
        try:
            res = T(v)
            ctor = "same" if res is v else "different"
        except TypeError:
            ctor = "TypeError"
        except Exception as e:  # noqa: BLE001
            ctor = type(e).__name__
        if ierr:
            ctor = ierr
        rt = "n/a"
        if isinst is True and wfn is not None:
            try:
                b = io.BytesIO()
                wfn(b, v)
                b.seek(0)
                back = rfn(b)
                if isinstance(v, datetime.timedelta):
                    ok = abs(back - v) <= datetime.timedelta(microseconds=500)
                elif isinstance(v, float):
                    ok = back == v and math.copysign(1, back) == math.copysign(1, v)
                else:
                    ok = back == v
                rt = "ok" if ok and b.read() == b"" else "differs"
            except Exception as e:  # noqa: BLE001
                rt = "raised:" + type(e).__name__
        rows.append({"k": "t", "t": tname, "c": cand_abs(v), "isinst": isinst, "ctor": ctor, "rt": rt,
                     "repr": repr(v)[:80]})

    # bool is an int in Python; whether the integer types admit it is left open (not judged)
    impostors = [1.0, 0.0, "1", b"1", None, (1,), 1.5, float("nan")]
    for tname, (T, wfn, rfn) in int_types.items():
        lo, hi = T.__low__, T.__high__    # only used to aim candidates around the limits
        cands = set()
        for k in range(0, 73):
            for d in (-2, -1, 0, 1, 2):
                cands.add((1 << k) + d)
                cands.add(-(1 << k) + d)
        cands.update([lo - 1, lo, lo + 1, hi - 1, hi, hi + 1, 0])
        cands.update(rng.randint(-(2**71), 2**71) for _ in range(100))
        for v in sorted(c for c in cands if -(2**71) <= c < 2**71):
            observe(tname, T, wfn, rfn, v)
        for v in impostors:
            observe(tname, T, wfn, rfn, v)
    T, wfn, rfn = others["f64"]
    for v in [0.0, -0.0, 1.5, -1e308, 5e-324, float("inf"), float("-inf"), float("nan"), 1, True, "1.0", None,
              1.7976931348623157e308] + [rng.uniform(-1, 1) * 10 ** rng.randint(-300, 300) for _ in range(100)]:
        observe("f64", T, wfn, rfn, v)
    for tname in ("i32Timedelta", "i64Timedelta"):
        T, wfn, rfn = others[tname]
        lim = 2**31 if tname == "i32Timedelta" else 999999999 * 86400000
        base = [-lim - 1, -lim, -lim + 1, -1, 0, 1, lim - 2, lim - 1, lim, lim + 1] + \
               [rng.randint(-lim, lim) for _ in range(150)] + [s * (1 << k) for k in range(0, 57) for s in (1, -1)]
        for ms in base:
            for us in (0, 1, 499, 500, 501, 999):
                try:
                    v = datetime.timedelta(milliseconds=ms, microseconds=us)
                except OverflowError:
                    continue
                observe(tname, T, wfn, rfn, v)
        for v in [0, 1.0, "1", None, datetime.datetime.now()]:
            observe(tname, T, wfn, rfn, v)
    utc = datetime.timezone.utc
    zones = [utc, datetime.timezone(datetime.timedelta(hours=5, minutes=30)), datetime.timezone(datetime.timedelta(hours=-8))]
    far_zones = [datetime.timezone(datetime.timedelta(hours=h, minutes=m)) for h, m in ((2, 0), (14, 0), (-12, 0), (0, 1))]
    for tname in ("TZAware", "TZAwareMicros"):
        T, wfn, rfn = others[tname]
        mss = [-86400000, -50400000, -19800001, -19800000, -7200001, -7200000, -60000, -1001, -1000, -1, 0, 1, 999, 1000,
               7200000, 19800000, 50400000, 86400000, 1716899460123, 253402300799999 - 86400000 * 2,
               253402300799999, 253402300799000] + [rng.randrange(0, 253402300800000 - 86400000 * 2) for _ in range(150)]
        for ms in mss:
            for us in (0, 1, 500, 999):
                try:
                    v = project.EPOCH + datetime.timedelta(milliseconds=ms, microseconds=us)
                except OverflowError:
                    continue
                if abs(ms) <= 86400000:
                    # around the epoch the wall-clock year / day of a zone disagrees with the instant's sign
                    for z in zones + far_zones:
                        observe(tname, T, wfn, rfn, v.astimezone(z))
                    continue
                z = rng.choice(zones) if ms < 253402300799999 - 86400000 * 2 else utc
                observe(tname, T, wfn, rfn, v.astimezone(z))
                if rng.random() < 0.2:
                    observe(tname, T, wfn, rfn, v.replace(tzinfo=None))      # naive
        for v in [0, 1.0, "2024-01-01", None, datetime.date(2024, 1, 1), datetime.timedelta(0)]:
            observe(tname, T, wfn, rfn, v)
        # wall-clock values at the two ends of the calendar in zones away from UTC, built directly (their
        # instants lie outside what a UTC datetime can express; cand_abs only subtracts aware values)
        tzs = [datetime.timezone(datetime.timedelta(hours=h, minutes=m)) for h, m in ((1, 0), (-1, 0), (14, 0), (-12, 0), (0, 1), (0, -1))]
        for z in tzs:
            for wall in [datetime.datetime(9999, 12, 31, 23, 30, 0, 123000), datetime.datetime(9999, 12, 31, 23, 59, 59, 999000),
                         datetime.datetime(9999, 12, 31, 9, 59, 59, 999000), datetime.datetime(9999, 12, 31, 12, 0, 0, 0),
                         datetime.datetime(9999, 12, 31, 23, 59, 59, 999999),
                         datetime.datetime(1, 1, 1, 0, 30), datetime.datetime(1, 1, 1, 0, 0), datetime.datetime(1, 1, 2, 0, 0)]:
                observe(tname, T, wfn, rfn, wall.replace(tzinfo=z))
    return rows


def write_rows(path: str, rows: list[dict]) -> None:
    with open(path, "w") as f:
        json.dump({"rows": rows}, f, separators=(",", ":"))
