"""Runs inside a scratch tree (KIO_VERIF_REPO=<scratch>): the project's real parser and generators
on the definitions under <scratch>/schema/<tag>/, then imports what was generated and reports it.

usage: python -m harness.codegen_child <scratch> <request.json> <out.json>
request: {"errors_file": path|None, "wire": {module path: [{"cls", "sid", "schema", "values"}]}}
"""
from __future__ import annotations

import contextlib
import importlib
import io
import json
import os
import sys
import traceback


def main() -> int:
    scratch, req_path, out_path = sys.argv[1:4]
    os.chdir(scratch)
    sys.path.insert(0, scratch)
    sys.path.insert(0, os.path.join(scratch, "src"))
    req = json.load(open(req_path))
    out = {"gen_error": "", "modules": {}, "index": None, "wire": [], "errors": None, "types": {}}
    log = io.StringIO()
    try:
        with contextlib.redirect_stdout(log), contextlib.redirect_stderr(log):
            from codegen import generate_error_codes, generate_index, generate_schema, recreate_schema_path
            recreate_schema_path.main()
            if req.get("errors_file"):
                sys.argv = ["generate_error_codes", req["errors_file"]]
                generate_error_codes.main()
            else:
                import shutil
                shutil.copy(req["errors_module"], os.path.join(scratch, "src/kio/schema/errors.py"))
            generate_schema.main()
            generate_index.main()
    except BaseException as e:  # noqa: BLE001
        out["gen_error"] = "".join(traceback.format_exception(type(e), e, e.__traceback__))[-3000:]
        json.dump(out, open(out_path, "w"))
        return 0
    from harness import project, schema_snapshot          # KIO_VERIF_REPO points at the scratch tree
    from harness.streams import RecSink
    import dataclasses
    import pkgutil
    # every generated module, found on disk
    import kio.schema as root
    def walk(pkg):
        for m in pkgutil.iter_modules(pkg.__path__):
            full = f"{pkg.__name__}.{m.name}"
            if m.ispkg:
                try:
                    yield from walk(importlib.import_module(full))
                except BaseException as e:  # noqa: BLE001
                    out["modules"][full] = {"import_error": repr(e)[:300]}
            elif full.count(".") >= 4:
                yield full
    for full in list(walk(root)):
        try:
            mod = importlib.import_module(full)
        except BaseException as e:  # noqa: BLE001
            out["modules"][full] = {"import_error": f"{type(e).__name__}: {e}"[:300]}
            continue
        classes = []
        for cls in project.module_classes(mod):
            try:
                d = schema_snapshot.describe_class(cls)
                d["schema"] = project.project_schema(cls)
                classes.append(d)
            except BaseException as e:  # noqa: BLE001
                classes.append({"name": cls.__name__, "describe_error": f"{type(e).__name__}: {e}"[:300]})
        out["modules"][full] = {"classes": classes,
                                "exports": sorted(getattr(importlib.import_module(full.rsplit(".", 1)[0]), "__all__", ()))}
    try:
        out["index"] = schema_snapshot.index_snapshot()
    except BaseException as e:  # noqa: BLE001
        out["index"] = {"error": repr(e)[:300]}
    try:
        from kio.schema.errors import ErrorCode
        out["errors"] = [[e.name, int(e), bool(e.retriable)] for e in ErrorCode]
    except BaseException as e:  # noqa: BLE001
        out["errors"] = {"error": repr(e)[:300]}
    try:
        tmod = importlib.import_module("kio.schema.types")
        for k, v in vars(tmod).items():
            if isinstance(v, type) and v.__module__ == tmod.__name__:
                out["types"][k] = [c.__name__ for c in v.__mro__[1:3]]
            elif hasattr(v, "__supertype__"):
                out["types"][k] = ["NewType", v.__supertype__.__name__]
    except ModuleNotFoundError:
        pass
    # wire: encode instances of generated classes; the parent validates against the SPECIFIED schema
    from kio.serial import entity_writer
    for modname, items in req.get("wire", {}).items():
        try:
            mod = importlib.import_module(modname)
        except BaseException:  # noqa: BLE001
            continue
        for it in items:
            cls = getattr(mod, it["cls"], None)
            if cls is None:
                continue
            # the expected schema decides how the abstract value is turned into an instance;
            # nested structures are looked up by name in the generated module
            def reg(schema):
                c = getattr(mod, schema["name"], None)
                project.REG[schema["sid"]] = c
                for fs in schema["fields"]:
                    if fs["kind"] == "struct":
                        reg(fs["sub"])
            reg(it["schema"])
            for vi, v in enumerate(it["values"]):
                rec = {"module": modname, "cls": it["cls"], "sid": it["schema"]["sid"], "vi": vi,
                       "wev": [], "wout": "ok", "err": ""}
                try:
                    inst = project.build_entity(v, it["schema"])
                    sink = RecSink()
                    entity_writer(cls)(sink, inst)
                    rec["wev"] = RecSink.events(sink)
                except BaseException as e:  # noqa: BLE001
                    rec["wout"] = "raise:" + type(e).__name__
                    rec["err"] = f"{type(e).__name__}: {e}"[:300]
                out["wire"].append(rec)
    json.dump(out, open(out_path, "w"))
    return 0


if __name__ == "__main__":
    sys.exit(main())
