"""Checks C11 (primitive readers/writers) and C12 (primitive value types) against
spec/KafkaPrim.tla: lemmas model-checked by MC_Prim, every public function / type observed
call by call and validated by PrimTrace.tla."""
from __future__ import annotations

import copy
import os

from . import prim_driver, tlc
from .checklib import Check, Machinery
from .checks_codec import pmap

ASSUMPTIONS = [
    "TLC and the CommunityModules Json/IOUtils overrides are trusted; integers cross the boundary as "
    "72-bit two's-complement bit lists, byte strings in run-length notation",
    "Python's int, divmod on timedelta, str.encode('utf-8') and float.hex are trusted (struct only to "
    "read NaN payloads)",
]


def _model_check(chk: Check) -> None:
    cfg = "MC_Prim.cfg" if chk.tier == "thorough" else "MC_Prim_quick.cfg"
    res = tlc.run_tlc("MC_Prim", cfg=cfg, workers=16, timeout=3000, xmx="8g")
    if not tlc.tlc_ok(res):
        raise Machinery(f"MC_Prim failed:\n{res['out'][-2500:]}")
    chk.add_tlc(f"MC_Prim/{cfg}", res)


def _validate(chk: Check, rows: list[dict], canaries: list[dict], label: str) -> dict[str, list[str]]:
    for i, r in enumerate(rows):
        r["id"] = f"{label}{i}"
    rows = rows + canaries
    K = 16
    paths = []
    for i in range(K):
        part = rows[i::K]
        p = os.path.join(chk.scratch, f"{label}{i}.json")
        prim_driver.write_rows(p, part)
        paths.append(p)
    res = tlc.validate_shards("PrimTrace", paths, jobs=16)
    fails = {v["id"]: v["fails"] for v in res["verdicts"]}
    for c in canaries:
        if c["id"] not in fails:
            raise Machinery(f"canary {c['id']} was not rejected by PrimTrace")
    chk.add_tlc(f"PrimTrace({label})", res, traces=len(rows) - len(canaries))
    return fails


def check_C11(chk: Check, replay: str | None) -> None:
    chk.assumptions += ASSUMPTIONS
    chk.cov["rule"] = ("a case is one call of one public reader/writer: exhaustive for 8-bit (16-bit in "
                       "thorough) integers and all varints below 2^14 (2^21), every power-of-two "
                       "neighbourhood up to 2^70, string/bytes/array lengths at their limits, all byte "
                       "strings up to 2 bytes (3 over an alphabet) as varint input; distinct = distinct "
                       "(function, argument)")
    _model_check(chk)
    wrows = prim_driver.writer_rows(chk.tier, chk.seed)
    rrows, _ = prim_driver.reader_rows(chk.tier, chk.seed)
    rrows = rrows + prim_driver.reader_after_writer_rows(wrows, chk.seed)
    rows = wrows + rrows
    public = set(prim_driver.public_functions())
    covered = {r["fn"] for r in rows}
    if public - covered:
        raise Machinery(f"public primitive functions without rows: {sorted(public - covered)}")
    canaries = []
    donor = next(r for r in wrows if r["fn"] == "write_int32" and r["out"] == "ok")
    c = copy.deepcopy(donor)
    c["id"] = "canary_wbytes"
    c["b"]["raw"][0] ^= 1
    canaries.append(c)
    donor = next(r for r in rrows if r["fn"] == "read_unsigned_varint" and r["out"] == "ok" and r["n"] == 2)
    c = copy.deepcopy(donor)
    c["id"] = "canary_rconsumed"
    c["n"] += 1
    canaries.append(c)
    fails = _validate(chk, rows, canaries, "p")
    chk.notes.append(f"{len(public)} public functions, {len(rows)} calls; 2 canaries rejected")
    for r in rows:
        chk.count()
        chk.distinct((r["fn"], str(r.get("x", r.get("b")))[:300]))
        if r["id"] in fails:
            f = fails[r["id"]]
            chk.violation(f"{r['fn']}:{'+'.join(sorted(f))}"[:100],
                          f"{r['fn']} {'arg=' + str(r['x'])[:200] if r['k'] == 'w' else 'input=' + str(r['b'])[:200]} "
                          f"-> out={r['out']} {'bytes=' + str(r['b'])[:200] if r['k'] == 'w' else 'value=' + str(r['v'])[:200] + ' consumed=' + str(r['n'])}: {sorted(f)}",
                          {"kind": "prim", "row": r})
    chk.sample({k: wrows[len(wrows) // 3][k] for k in ("fn", "x", "out", "b")})
    chk.sample({k: rrows[len(rrows) // 2][k] for k in ("fn", "b", "out", "v", "n")})


def check_C12(chk: Check, replay: str | None) -> None:
    chk.assumptions += ASSUMPTIONS
    chk.cov["rule"] = ("a case is (type, candidate value): integers around every power of two up to 2^72 "
                       "and around the type's limits, float classes, durations and timestamps around their "
                       "limits and at sub-millisecond offsets, naive vs aware datetimes in several zones, "
                       "impostor Python types; observed: isinstance, constructor, writer->reader round trip; "
                       "distinct = distinct (type, candidate)")
    _model_check(chk)
    rows = prim_driver.type_rows(chk.seed)
    canaries = []
    donor = next(r for r in rows if r["t"] == "i16" and r["isinst"] is True)
    c = copy.deepcopy(donor)
    c["id"] = "canary_member"
    c["isinst"] = False
    canaries.append(c)
    fails = _validate(chk, rows, canaries, "t")
    chk.notes.append(f"{len({r['t'] for r in rows})} types, {len(rows)} candidates; 1 canary rejected")
    for r in rows:
        chk.count()
        chk.distinct((r["t"], r["repr"]))
        if r["id"] in fails:
            f = fails[r["id"]]
            chk.violation(f"{r['t']}:{'+'.join(sorted(f))}"[:100],
                          f"type {r['t']} candidate {r['repr']}: isinstance={r['isinst']} constructor={r['ctor']} "
                          f"round-trip={r['rt']}: {sorted(f)}", {"kind": "type", "row": r})
    for r in rows[:: max(1, len(rows) // 3)][:3]:
        chk.sample({k: r[k] for k in ("t", "c", "isinst", "ctor", "rt", "repr")})
