"""Instrumented streams: the linearisation points of the codec machines.

RecSink exposes only write(b); RecSource exposes only read(n).  Every call is an event.  Any
other attribute access is recorded as an {"op":"other"} event and raises AttributeError: the
specification has no action for it, so the trace is rejected.
"""
from __future__ import annotations


def _runs(b: bytes) -> list:
    out = []
    for c in b:
        if out and out[-1][0] == c:
            out[-1][1] += 1
        else:
            out.append([c, 1])
    return out


def _babs(b: bytes) -> dict:
    if len(b) > 128:
        rs = _runs(b)
        if len(rs) <= 48:
            return {"rle": rs}
    return {"raw": list(b)}


class InjectedIOError(OSError):
    """Raised by an instrumented stream at a chosen operation."""


class StepBudgetExceeded(BaseException):
    """The decoder issued more reads than any terminating decoder could need."""


class RecSink:
    __slots__ = ("_ev", "_data", "_fail_at", "_n")

    def __init__(self, fail_at: int | None = None):
        object.__setattr__(self, "_ev", [])
        object.__setattr__(self, "_data", bytearray())
        object.__setattr__(self, "_fail_at", fail_at)
        object.__setattr__(self, "_n", 0)

    def write(self, b):
        object.__setattr__(self, "_n", self._n + 1)
        if self._fail_at is not None and self._n == self._fail_at:
            self._ev.append({"op": "wfail", "n": 0, "d": {"raw": []}})
            raise InjectedIOError("injected write failure")
        b = bytes(b)
        self._ev.append({"op": "w", "n": len(b), "d": _babs(b)})
        self._data += b
        return len(b)

    def __getattr__(self, name):
        if name.startswith("__") and name.endswith("__"):
            raise AttributeError(name)
        self._ev.append({"op": "other", "n": 0, "d": {"raw": []}, "name": name})
        raise AttributeError(f"RecSink has no attribute {name!r}")

    # harness-side accessors (not reachable by attribute lookup of public names)
    @staticmethod
    def events(s) -> list:
        return object.__getattribute__(s, "_ev")

    @staticmethod
    def data(s) -> bytes:
        return bytes(object.__getattribute__(s, "_data"))

    @staticmethod
    def nwrites(s) -> int:
        return object.__getattribute__(s, "_n")


class RecSource:
    __slots__ = ("_ev", "_data", "_pos", "_fail_at", "_n", "_budget")

    def __init__(self, data: bytes, fail_at: int | None = None, budget: int | None = None):
        object.__setattr__(self, "_ev", [])
        object.__setattr__(self, "_data", bytes(data))
        object.__setattr__(self, "_pos", 0)
        object.__setattr__(self, "_fail_at", fail_at)
        object.__setattr__(self, "_n", 0)
        object.__setattr__(self, "_budget", budget)

    def read(self, n=-1):
        object.__setattr__(self, "_n", self._n + 1)
        if self._budget is not None and self._n > self._budget:
            raise StepBudgetExceeded(f"more than {self._budget} reads")
        if self._fail_at is not None and self._n == self._fail_at:
            self._ev.append({"op": "rfail", "n": 0, "got": 0})
            raise InjectedIOError("injected read failure")
        if n is None or n < 0:
            out = self._data[self._pos:]
        else:
            out = self._data[self._pos:self._pos + n]
        object.__setattr__(self, "_pos", self._pos + len(out))
        self._ev.append({"op": "r", "n": -1 if n is None else int(n), "got": len(out)})
        return out

    def __getattr__(self, name):
        if name.startswith("__") and name.endswith("__"):
            raise AttributeError(name)
        self._ev.append({"op": "other", "n": 0, "got": 0, "name": name})
        raise AttributeError(f"RecSource has no attribute {name!r}")

    @staticmethod
    def events(s) -> list:
        return object.__getattribute__(s, "_ev")

    @staticmethod
    def pos(s) -> int:
        return object.__getattribute__(s, "_pos")

    @staticmethod
    def nreads(s) -> int:
        return object.__getattribute__(s, "_n")
