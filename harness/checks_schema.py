"""Checks C08, C09, C13, C14 (and the static part of C15): the live schema configuration and the
dynamic index against spec/SchemaModel.tla."""
from __future__ import annotations

import copy
import importlib
import json
import os
import random

from . import kioenv, project, schema_snapshot, tlc
from .checklib import Check, Machinery

kioenv.activate()

CLAUSES = {
    "C13": {"field_kafka_type_unknown", "field_python_type_does_not_match_kafka_type",
            "nested_entity_from_other_module", "array_is_not_a_homogeneous_tuple",
            "nullable_type_without_wire_null", "nullable_array_item_without_wire_null",
            "default_does_not_inhabit_type", "tag_is_not_a_non_negative_integer",
            "tag_on_non_flexible_version", "tagged_field_without_resolvable_default", "resolved_tagged_default_does_not_inhabit_type",
            "nullable_tagged_field_with_non_null_default", "array_element_may_encode_to_zero_bytes",
            "duplicate_tag", "duplicate_field_name", "reader_or_writer_cannot_be_derived",
            "flexibility_flag_is_not_a_boolean", "unknown_entity_type"},
    "C14": {"nested_entity_from_other_module", "class_version_differs_from_module_path", "class_entity_type_differs_from_module_path",
            "module_without_entity_class", "module_must_have_exactly_one_top_level_class",
            "flexibility_differs_within_module", "api_key_differs_within_module",
            "header_schema_differs_within_module", "module_path_malformed",
            "api_name_in_path_differs_from_top_level_class", "payload_class_name_lacks_type_suffix",
            "versions_not_contiguous", "flexibility_reverts",
            "api_key_changes_between_versions", "request_and_response_versions_differ",
            "request_and_response_disagree_on_key_or_flexibility", "api_key_shared_by_two_apis"},
    "C08": {"header_schema_violates_kafka_rule", "non_payload_entity_advertises_header",
            "payload_without_api_key", "request_and_response_disagree_on_key_or_flexibility",
            "pairing:lookup_returned_wrong_class", "pairing:lookup_failed_for_known_entity",
            "pairing:lookup_returned_wrong_module", "pairing:lookup_raised_wrong_error",
            "pairing:lookup_result_is_not_the_imported_object"},
    "C09": {"api_key_map_is_not_the_key_to_api_bijection", "api_key_map_duplicate_key",
            "index_entries_differ_from_modules_on_disk", "lookup_failed_differently_on_invalid_argument",
            "lookup_returned_entity_for_unknown_key", "lookup_raised_wrong_error",
            "lookup_failed_for_known_entity", "lookup_returned_wrong_module",
            "lookup_returned_wrong_class", "lookup_result_is_not_the_imported_object"},
    "C15": {"not_a_frozen_slotted_value_class"},
}


def _clamp(n) -> int:
    if isinstance(n, bool):
        return int(n)
    if isinstance(n, int):
        return n if -(2**30) < n < 2**30 else (2**30 if n > 0 else -(2**30))
    return -(2**30)


def make_queries(snap: dict, seed: int, thorough: bool) -> list[dict]:
    import kio.index as ix
    from kio.static.constants import EntityType
    rng = random.Random(seed)
    ets = {e.name: e for e in EntityType}
    qs = []

    def run(fn, args, want):
        try:
            r = fn(*args)
        except ix.UnknownAPIKey:
            return "UnknownAPIKey", "", "", True
        except ix.UnknownEntity:
            return "UnknownEntity", "", "", True
        except BaseException as e:  # noqa: BLE001
            return "other:" + type(e).__name__, "", "", True
        if want == "module":
            mod = getattr(r, "__name__", "?")
            ident = r is importlib.import_module(mod) if isinstance(mod, str) and mod != "?" else False
            return "ok", mod, "", ident
        mod, name = getattr(r, "__module__", "?"), getattr(r, "__qualname__", "?")
        try:
            ident = r is getattr(importlib.import_module(mod), name)
        except Exception:  # noqa: BLE001
            ident = False
        return "ok", mod, name, ident

    calls = []

    def add(fname, kind, valid, api, key, version, etype, want, args, tag=""):
        out, mod, name, ident = run(getattr(ix, fname), args, want)
        qs.append({"id": f"q{len(qs)}", "fn": fname, "tag": tag, "kind": kind, "valid": valid,
                   "api": api if isinstance(api, str) else "", "key": _clamp(key), "version": _clamp(version),
                   "etype": etype if isinstance(etype, str) else "", "want": want,
                   "out": out, "module": mod, "name": name, "identical": bool(ident)})
        calls.append((fname, args, want, qs[-1]))

    def by_name(api, version, etname, valid=True):
        et = ets.get(etname, etname)
        add("load_entity_module", "name", valid, api, 0, version, etname, "module", (api, version, et))
        add("load_entity_schema", "name", valid, api, 0, version, etname, "class", (api, version, et))

    def by_key(key, version, etname, valid=True):
        et = ets.get(etname, etname)
        add("load_payload_module", "key", valid, "", key, version, etname, "module", (key, version, et))
        if etname == "request":
            add("load_request_schema", "key", valid, "", key, version, "request", "class", (key, version))
        if etname == "response":
            add("load_response_schema", "key", valid, "", key, version, "response", "class", (key, version))

    mods = snap["modules"]
    by_api: dict[tuple, list[int]] = {}
    for m in mods:
        by_api.setdefault((m["api"], m["etype"]), []).append(m["version"])
    keys = {}
    for c in snap["classes"]:
        if c["mod_etype"] in ("request", "response") and c["api_key"] >= 0:
            keys[c["mod_api"]] = c["api_key"]
    # every entry, by name and by key
    for m in mods:
        by_name(m["api"], m["version"], m["etype"])
        if m["etype"] in ("request", "response") and m["api"] in keys:
            by_key(keys[m["api"]], m["version"], m["etype"])
    # pairing through the classes themselves (and through instances' classes)
    for c in snap["classes"]:
        if c["etype"] in ("request", "response"):
            mod, _, qual = c["sid"].partition(":")
            cls = getattr(importlib.import_module(mod), qual)
            if c["etype"] == "request":
                add("load_response_from_request", "key", True, "", c["api_key"], c["version"], "response",
                    "class", (cls,), tag="pairing")
            else:
                add("load_request_from_response", "key", True, "", c["api_key"], c["version"], "request",
                    "class", (cls,), tag="pairing")
    # near misses
    all_et = ["request", "response", "header", "data"]
    for (api, et), vs in by_api.items():
        for v in (min(vs) - 1, max(vs) + 1, -1, max(vs) + 100):
            by_name(api, v, et)
            if et in ("request", "response") and api in keys:
                by_key(keys[api], v, et)
        for other in all_et:
            if (api, other) not in by_api:
                by_name(api, min(vs), other)
        for mut in (api[:-1], api + "s", api.upper(), api.replace("_", "-"), "x" + api[1:]):
            by_name(mut, min(vs), et)
    valid_keys = sorted(set(keys.values()))
    for k in sorted({k + d for k in valid_keys for d in (-1, 1)} - set(valid_keys)) + \
            [-1, -2, 2**15, 2**31, -(2**31), 2**63, 10**30] + [rng.randrange(-1000, 100000) for _ in range(200 if thorough else 40)]:
        if k in valid_keys:
            continue
        by_key(k, 0, "request")
        by_key(k, 0, "response")
    by_key(True, 0, "request")           # bool is the integer 1
    # nested / impossible entity types and wrong-typed arguments: only documented errors allowed
    for api, et in list(by_api)[:: 7 if not thorough else 1]:
        vs = by_api[(api, et)]
        add("load_entity_schema", "name", False, api, 0, min(vs), "nested", "class", (api, min(vs), ets["nested"]))
        add("load_entity_schema", "name", False, "", 0, min(vs), et, "class", (5, min(vs), ets[et]))      # int for name
        add("load_entity_schema", "name", False, api, 0, 0, et, "class", (api, "0", ets[et]))             # str for version
        add("load_entity_module", "name", False, api, 0, 0, et, "module", (api, None, ets[et]))
    for s in ["", " ", "fetch ", "Fetch", "fetch\x00", "ünï", "a" * 300] + \
            ["".join(rng.choice("abcdefgh_") for _ in range(rng.randrange(1, 12))) for _ in range(60)]:
        if (s, "request") in by_api or (s, "header") in by_api or (s, "data") in by_api:
            continue
        by_name(s, 0, "request")
    # entity types that are not kio's EntityType but look like it (same member names, same values, as an
    # Enum and as an IntEnum): "any other entity type" raises the documented error
    import enum
    Foreign = enum.Enum("EntityType", {e.name: e.value for e in EntityType})
    vals = {e.name: (e.value if isinstance(e.value, int) else i + 1) for i, e in enumerate(EntityType)}
    ForeignInt = enum.IntEnum("EntityTypeInt", vals)
    for api, et in list(by_api)[:: 5 if not thorough else 1]:
        vs = by_api[(api, et)]
        for F in (Foreign, ForeignInt):
            add("load_entity_schema", "name", False, api, 0, min(vs), et, "class", (api, min(vs), F[et]))
            add("load_entity_module", "name", False, api, 0, max(vs), et, "module", (api, max(vs), F[et]))
            if et in ("request", "response") and api in keys:
                add("load_payload_module", "key", False, "", keys[api], min(vs), et, "module", (keys[api], min(vs), F[et]))
    # a lookup is a function of its arguments: the same queries again in a different order, each one
    # twice in a row (the answer must not depend on what was looked up before, or how often)
    again = list(calls)
    rng.shuffle(again)
    for fname, args, want, first in again[: len(again) if thorough else 1500]:
        for rep in ("r", "rr"):
            out, mod, name, ident = run(getattr(ix, fname), args, want)
            qs.append(dict(first, id=first["id"] + rep, out=out, module=mod, name=name, identical=bool(ident)))
    return qs


def run_model(chk: Check, props: set[str], thorough: bool) -> None:
    snap = schema_snapshot.snapshot()
    snap["index"] = schema_snapshot.index_snapshot()
    snap["queries"] = make_queries(snap, chk.seed, thorough)
    # canaries: a class with a flipped flexibility flag copy and a lookup with a swapped result
    donor = next(c for c in snap["classes"] if c["etype"] == "request" and c["flex"])
    can = copy.deepcopy(donor)
    can["sid"] = "canary:header"
    can["module"] = "canary.module"          # not part of any real module
    can["mod_api"] = "canary"
    can["header_version"] = 1
    snap["classes"].append(can)
    dq = next(q for q in snap["queries"] if q["out"] == "ok" and q["want"] == "class")
    cq = copy.deepcopy(dq)
    cq["id"], cq["name"] = "canary_query", cq["name"] + "X"
    snap["queries"].append(cq)
    path = os.path.join(chk.scratch, "schema.json")
    with open(path, "w") as f:
        json.dump(snap, f, separators=(",", ":"))
    import concurrent.futures
    NS = 16

    def one(k):
        return tlc.run_tlc("SchemaModel", env={"KIO_TRACE_FILE": path, "KIO_SHARD_N": str(NS),
                                               "KIO_SHARD_K": str(k)}, workers=1, timeout=3000, xmx="4g")

    with concurrent.futures.ThreadPoolExecutor(max_workers=NS) as ex:
        results = list(ex.map(one, range(NS)))
    for r in results:
        if not tlc.tlc_ok(r):
            raise Machinery(f"SchemaModel failed rc={r['rc']}:\n{r['out'][-3000:]}")
    res = {"out": "\n".join(r["out"] for r in results), "states": sum(r["states"] for r in results),
           "generated": sum(r["generated"] for r in results), "wall": max(r["wall"] for r in results)}
    reports = tlc.parse_json_lines(res["out"])
    ids = {r["id"] for r in reports}
    if "canary:header" not in ids or "canary_query" not in ids:
        raise Machinery("a canary was not rejected by SchemaModel: the spec is not bound to the snapshot")
    nitems = len(snap["classes"]) + len(snap["modules"]) + len(snap["queries"])
    chk.add_tlc("SchemaModel", res, traces=len(snap["queries"]) - 1)
    chk.cov["exhaustive"] = True
    nfields = sum(len(c["fields"]) for c in snap["classes"]) - len(can["fields"])
    chk.notes.append(f"{len(snap['classes']) - 1} classes, {nfields} fields, {len(snap['modules'])} modules, "
                     f"{len(snap['index']['keys'])} api keys, {len(snap['index']['entries'])} index entries, "
                     f"{len(snap['queries']) - 1} lookups; 2 canaries rejected")
    chk.count(nitems - 2)
    chk.cov["distinct_nontrivial"] = nitems - 2
    qtag = {q["id"]: q for q in snap["queries"]}
    wanted = set().union(*(CLAUSES[p] for p in props))
    for r in reports:
        if r["id"] in ("canary:header", "canary_query"):
            continue
        for clause in r["fails"]:
            full = clause
            if r["kind"] == "query" and qtag[r["id"]]["tag"] == "pairing":
                full = "pairing:" + clause
            hit = [p for p in props if full in CLAUSES[p] or (clause in CLAUSES[p] and not full.startswith("pairing:"))]
            if not hit and r["kind"] == "query" and full.startswith("pairing:") and "C09" in props and clause in CLAUSES["C09"]:
                hit = ["C09"]
            if not hit:
                continue
            detail = json.dumps(qtag[r["id"]])[:400] if r["kind"] == "query" else ""
            chk.violation(f"{clause}:{r['id']}"[:120], f"{r['kind']} {r['id']}: {clause} {detail}",
                          {"kind": "schema", "item": r})
    c0 = snap["classes"][len(snap["classes"]) // 2]
    chk.sample({"class": {k: c0[k] for k in ("sid", "etype", "version", "flex", "api_key", "header_name",
                                             "header_version", "frozen", "slots")},
                "fields": [{"name": f["name"], "family": f["family"], "ktype": f["fs"]["ktype"],
                            "nul": f["fs"]["nul"], "tag": f["fs"]["tag"]} for f in c0["fields"][:6]]})
    chk.sample({"lookup": snap["queries"][len(snap["queries"]) // 3]})
    chk.sample({"near_miss_lookup": next(q for q in snap["queries"] if q["out"] != "ok")})


ASSUMPTIONS = ["the snapshot is taken by walking kio.schema on disk with pkgutil and reading dataclass "
               "metadata; TLC and the Json module are trusted",
               "the totals named in the property text (1629/666/5094/88) are reported in the evidence notes"]


def _mk(pid):
    def check(chk: Check, replay):
        chk.assumptions += ASSUMPTIONS
        chk.cov["rule"] = ("one item per class (with all its fields), module, family, API table and lookup "
                           "query; the configuration is enumerated completely (exhaustive), lookups cover "
                           "every index entry by name and by key plus near misses and arbitrary arguments")
        run_model(chk, {pid} | ({"C15"} if pid == "C13" else set()), chk.tier == "thorough")
    return check


check_C08, check_C09, check_C13, check_C14 = _mk("C08"), _mk("C09"), _mk("C13"), _mk("C14")
