"""Check C16 (the generator translates any well-formed definition faithfully) and the shared
machinery for C04: spec/Codegen.tla gives the specified module content for every definition and
version (pass 1, CodegenExpect); the project's real parser and generators run on the same
definitions in a scratch tree outside /repo; the generated package is imported there and compared
class by class, field by field; instances of the generated classes are encoded by kio and validated
by CodecTrace against the SPECIFIED schema; the generated index must list exactly the generated
modules.  spec/SnakeCase.tla is checked exhaustively up to length 5 and replayed through
codegen.case.to_snake_case."""
from __future__ import annotations

import json
import os
import random
import re
import shutil
import subprocess
import sys

from . import defgen, kioenv, project, synth, tlc
from .absval import Sampler
from .checklib import Check, Machinery

PY = "/venv/bin/python"


def make_scratch_tree(base: str) -> str:
    """codegen/ and src/kio (without schema/) copied outside /repo: generate_index and
    generate_error_codes write relative to codegen's own location."""
    repo = kioenv.REPO
    tree = os.path.join(base, "tree")
    shutil.copytree(os.path.join(repo, "codegen"), os.path.join(tree, "codegen"),
                    ignore=shutil.ignore_patterns("__pycache__"))
    shutil.copytree(os.path.join(repo, "src", "kio"), os.path.join(tree, "src", "kio"),
                    ignore=lambda d, names: [n for n in names if n == "__pycache__" or
                                             (os.path.basename(d) == "kio" and n == "schema")])
    return tree


def build_tag(tree: str) -> str:
    m = re.search(r'build_tag[^=]*=\s*"([^"]+)"', open(os.path.join(tree, "codegen", "__init__.py")).read())
    if not m:
        raise Machinery("cannot find build_tag in codegen/__init__.py")
    return m.group(1)


def expected_from_spec(chk: Check, defs_abs: list[dict], workdir: str, label: str) -> dict:
    """Pass 1: {(def id, version): {"pkg": str, "classes": [...]}} from Codegen.ClassesAt."""
    import concurrent.futures
    K = min(16, max(1, len(defs_abs) // 4))
    paths = []
    for i in range(K):
        p = os.path.join(workdir, f"{label}_defs{i}.json")
        with open(p, "w") as f:
            json.dump({"defs": defs_abs[i::K], "builtins": defgen.python_builtins()}, f, separators=(",", ":"))
        paths.append(p)

    def one(p):
        return tlc.run_tlc("CodegenExpect", env={"KIO_TRACE_FILE": p}, workers=1, timeout=3000)

    with concurrent.futures.ThreadPoolExecutor(max_workers=16) as ex:
        results = list(ex.map(one, paths))
    out = {}
    for r in results:
        if not tlc.tlc_ok(r):
            raise Machinery(f"CodegenExpect failed:\n{r['out'][-3000:]}")
        for e in tlc.parse_json_lines(r["out"]):
            out[(e["id"], e["v"])] = e
    chk.add_tlc(f"CodegenExpect({label})", {"states": sum(r["states"] for r in results),
                                             "generated": sum(r["generated"] for r in results),
                                             "wall": max(r["wall"] for r in results)})
    return out


def s_of(cp) -> str:
    return "".join(chr(c) for c in cp)


def norm_expected_schema(s: dict) -> dict:
    return {"name": s["name"], "flex": s["flex"], "fields": [norm_expected_field(f) for f in s["fields"]]}


def norm_expected_field(f: dict) -> dict:
    return {"name": s_of(f["name_cp"]), "kind": f["kind"], "arr": f["arr"], "ktype": f["ktype"], "nul": f["nul"],
            "inul": f["inul"], "tag": f["tag"], "hasd": f["hasd"], "dflt": f["dflt"] if f["hasd"] else project.NULL,
            "sub": norm_expected_schema(f["sub"]) if f["kind"] == "struct" else None}


def norm_real_schema(s: dict) -> dict:
    return {"name": s["name"], "flex": s["flex"], "fields": [norm_real_field(f) for f in s["fields"]]}


def norm_real_field(f: dict) -> dict:
    return {"name": f["name"], "kind": f["kind"], "arr": f["arr"], "ktype": f["ktype"], "nul": f["nul"],
            "inul": f["inul"], "tag": f["tag"], "hasd": f["hasd"], "dflt": f["dflt"] if f["hasd"] else project.NULL,
            "sub": norm_real_schema(f["sub"]) if f["kind"] == "struct" else None}


def to_codec_schema(es: dict) -> dict:
    """The specified schema in the form spec/KafkaCodec.tla and the harness use (names as strings)."""
    return {"name": es["name"], "flex": es["flex"],
            "fields": [{"name": s_of(f["name_cp"]), "kind": f["kind"], "arr": f["arr"], "ktype": f["ktype"],
                        "nul": f["nul"], "inul": f["inul"], "tag": f["tag"], "hasd": f["hasd"],
                        "dflt": f["dflt"] if f["hasd"] else project.NULL,
                        "sub": to_codec_schema(f["sub"]) if f["kind"] == "struct" else project.DUMMY_SUB}
                       for f in es["fields"]]}


def first_difference(a, b, path="") -> str:
    if type(a) is not type(b):
        return f"{path}: {json.dumps(a)[:120]} != {json.dumps(b)[:120]}"
    if isinstance(a, dict):
        for k in a:
            if k not in b:
                return f"{path}.{k}: missing"
            if a[k] != b[k]:
                return first_difference(a[k], b[k], f"{path}.{k}")
        return f"{path}: extra keys {sorted(set(b) - set(a))}"
    if isinstance(a, list):
        if len(a) != len(b):
            na = [x.get("name") if isinstance(x, dict) else x for x in a]
            nb = [x.get("name") if isinstance(x, dict) else x for x in b]
            return f"{path}: {len(a)} items {na} != {len(b)} items {nb}"[:400]
        for i, (x, y) in enumerate(zip(a, b)):
            if x != y:
                nm = x.get("name", i) if isinstance(x, dict) else i
                return first_difference(x, y, f"{path}[{nm}]")
    return f"{path}: specified {json.dumps(a)[:150]} generated {json.dumps(b)[:150]}"


def run_generator(chk: Check, defs: list[dict], label: str, errors_file: str | None = None,
                  wire_per_class: int = 2, json_texts: dict | None = None) -> tuple[dict, dict, dict]:
    """Returns (expected, child output, wire request) for a batch of definitions."""
    work = os.path.join(chk.scratch, label)
    os.makedirs(work, exist_ok=True)
    tree = make_scratch_tree(work)
    tag = build_tag(tree)
    sdir = os.path.join(tree, "schema", tag)
    os.makedirs(sdir)
    rng = random.Random(chk.seed + 99)
    for d in defs:
        text = json_texts[d["id"]] if json_texts else defgen.to_upstream_json(d, rng)
        with open(os.path.join(sdir, d["name"] + ".json"), "w") as f:
            f.write(text)
    expected = expected_from_spec(chk, [defgen.to_abstract(d) for d in defs], work, label)
    # wire request: instances for every top-level class of every version, from the SPECIFIED schema
    wire: dict[str, list] = {}
    for d in defs:
        for v in range(d["valid"][0], d["valid"][1] + 1):
            e = expected[(d["id"], v)]
            top = e["classes"][-1]
            cs = synth.attach_sids(to_codec_schema(top["schema"]))
            values = []
            for k in range(wire_per_class):
                try:
                    values.append(Sampler(chk.seed * 31 + hash((d["id"], v, k)) % 10**6,
                                          profile=["max", "mixed", "min"][k % 3]).value(cs, budget=60))
                except Exception:  # noqa: BLE001
                    pass
            modname = f"kio.schema.{s_of(e['pkg'])}.v{v}.{d['kind']}"
            wire.setdefault(modname, []).append({"cls": d["name"], "schema": cs, "values": values})
    req = {"errors_file": errors_file, "errors_module": os.path.join(kioenv.REPO, "src/kio/schema/errors.py"),
           "wire": wire}
    req_path, out_path = os.path.join(work, "req.json"), os.path.join(work, "out.json")
    json.dump(req, open(req_path, "w"))
    env = dict(os.environ, KIO_VERIF_REPO=tree, PYTHONDONTWRITEBYTECODE="1", PYTHONHASHSEED="0",
               PYTHONPATH=kioenv.VERIF)
    p = subprocess.run([PY, "-m", "harness.codegen_child", tree, req_path, out_path], cwd=kioenv.VERIF,
                       env=env, capture_output=True, text=True, timeout=3000)
    if not os.path.exists(out_path):
        raise Machinery(f"codegen child produced no output: rc={p.returncode}\n{p.stderr[-2500:]}")
    child = json.load(open(out_path))
    shutil.rmtree(tree, ignore_errors=True)
    return expected, child, wire


def compare_generated(chk: Check, pid: str, defs: list[dict], expected: dict, child: dict) -> int:
    """Class-by-class comparison; returns the number of (definition, version) modules compared."""
    n = 0
    if child["gen_error"]:
        last = child["gen_error"].strip().splitlines()[-1]
        chk.violation("generator_raised:" + last[:60], f"the generator failed on a well-formed batch: {child['gen_error'][-900:]}",
                      {"kind": "codegen", "error": child["gen_error"][-2000:]})
        return 0
    by_id = {d["id"]: d for d in defs}
    for (did, v), e in sorted(expected.items()):
        d = by_id[did]
        n += 1
        chk.count()
        chk.distinct((pid, did, v))
        modname = f"kio.schema.{s_of(e['pkg'])}.v{v}.{d['kind']}"
        m = child["modules"].get(modname)
        where = f"definition {d['name']} ({d['kind']}) version {v} -> {modname}"
        if m is None:
            chk.violation(f"module_not_generated:{d['kind']}", f"{where}: module missing "
                          f"(generated: {sorted(k for k in child['modules'] if d['name'][:6].lower() in k)[:5]})",
                          {"kind": "codegen", "def": defgen.to_abstract(d), "version": v})
            continue
        if "import_error" in m:
            chk.violation("generated_module_does_not_import:" + m["import_error"].split(":")[0],
                          f"{where}: {m['import_error']}", {"kind": "codegen", "def": defgen.to_abstract(d), "version": v})
            continue
        real = m["classes"]
        exp = e["classes"]
        if [c["schema"]["name"] for c in exp] != [c.get("name") for c in real]:
            chk.violation("class_set_differs", f"{where}: specified classes {[c['schema']['name'] for c in exp]} "
                          f"generated {[c.get('name') for c in real]}", {"kind": "codegen", "def": defgen.to_abstract(d), "version": v})
            continue
        for ec, rc in zip(exp, real):
            if "describe_error" in rc:
                chk.violation("generated_class_not_describable", f"{where} class {rc['name']}: {rc['describe_error']}",
                              {"kind": "codegen", "def": defgen.to_abstract(d), "version": v})
                continue
            ea = norm_expected_schema(ec["schema"])
            for ef, rf in zip(ea["fields"], norm_real_schema(rc["schema"])["fields"]):
                # recorded finding: the generator drops nullableVersions of primitive arrays
                if ef["kind"] == "prim" and ef["arr"] and ef["nul"] and not rf["nul"] and ef["name"] == rf["name"]:
                    chk.violation("nullable_primitive_array_generated_non_nullable",
                                  f"{where} class {rc['name']} field {ef['name']}: nullableVersions covers this "
                                  f"version but the generated field is not Optional",
                                  {"kind": "codegen", "def": defgen.to_abstract(d), "version": v})
                    ef["nul"] = False
            a = {"schema": ea, "etype": ec["etype"], "version": ec["version"],
                 "flex": ec["flex"], "api_key": ec["api_key"], "header_name": ec["header_name"],
                 "header_version": ec["header_version"]}
            b = {"schema": norm_real_schema(rc["schema"]), "etype": rc["etype"], "version": rc["version"],
                 "flex": rc["flex"], "api_key": rc["api_key"], "header_name": rc["header_name"],
                 "header_version": rc["header_version"]}
            if a != b:
                diff = first_difference(a, b)
                leaf = re.sub(r"\[[^\]]*\]", "[]", diff.split(":")[0])
                chk.violation(f"generated_class_differs:{leaf}"[:100], f"{where} class {rc['name']}: {diff}",
                              {"kind": "codegen", "def": defgen.to_abstract(d), "version": v, "class": rc["name"]})
            if not (rc["frozen"] and rc["slots"] and rc["kw_only"] and rc["eq"]):
                chk.violation("dataclass_options_differ", f"{where} class {rc['name']}: frozen/slots/kw_only/eq = "
                              f"{rc['frozen']}/{rc['slots']}/{rc['kw_only']}/{rc['eq']}", {"kind": "codegen"})
        if d["name"] not in m["exports"]:
            chk.violation("top_level_class_not_exported", f"{where}: __all__ = {m['exports']}", {"kind": "codegen"})
    # nothing but the specified modules was generated, and the index lists exactly them
    exp_mods = {f"kio.schema.{s_of(e['pkg'])}.v{v}.{by_id[did]['kind']}": (s_of(e["pkg"]), v, by_id[did]["kind"],
                                                                           by_id[did]["name"])
                for (did, v), e in expected.items()}
    extra = set(child["modules"]) - set(exp_mods)
    if extra:
        chk.violation("unspecified_module_generated", f"generated but not specified: {sorted(extra)[:5]}", {"kind": "codegen"})
    idx = child["index"]
    if idx is None or "error" in idx:
        chk.violation("generated_index_unusable", f"{idx}", {"kind": "codegen"})
    else:
        got = {(x["name"], x["version"], x["etype"], x["path"]) for x in idx["entries"]}
        want = {(pkg, v, kind, f"{mod}:{name}") for mod, (pkg, v, kind, name) in exp_mods.items()}
        if got != want:
            chk.violation("generated_index_differs_from_generated_modules",
                          f"missing {sorted(want - got)[:3]} extra {sorted(got - want)[:3]}", {"kind": "codegen"})
        wantk = {}
        for (did, v), e in expected.items():
            d = by_id[did]
            if d["kind"] in ("request", "response"):
                wantk[d["apiKey"]] = s_of(e["pkg"])
        gotk = {x["key"]: x["name"] for x in idx["keys"]}
        if gotk != wantk:
            chk.violation("generated_api_key_map_differs",
                          f"missing {sorted(set(wantk.items()) - set(gotk.items()))[:3]} "
                          f"extra {sorted(set(gotk.items()) - set(wantk.items()))[:3]}", {"kind": "codegen"})
    return n


def validate_wire(chk: Check, child: dict, wire: dict, label: str) -> int:
    """kio's encoding of instances of the GENERATED classes against the SPECIFIED schemas."""
    schemas, cases = {}, []
    lookup = {}
    for modname, items in wire.items():
        for it in items:
            lookup[(modname, it["cls"])] = it
    for i, rec in enumerate(child["wire"]):
        it = lookup[(rec["module"], rec["cls"])]
        schemas[it["schema"]["sid"]] = it["schema"]
        cases.append({"id": f"w{i}", "mode": "w1", "sid": it["schema"]["sid"], "value": it["values"][rec["vi"]],
                      "var": {"expl": 0, "unk": []}, "input": {"raw": []}, "wev": rec["wev"], "wout": rec["wout"],
                      "rev": [], "rout": "skipped", "rval": project.NULL, "req": True,
                      "where": f"{rec['module']}:{rec['cls']}", "err": rec["err"]})
    if not cases:
        return 0
    K = min(16, len(cases))
    paths = []
    for k in range(K):
        p = os.path.join(chk.scratch, f"{label}_wire{k}.json")
        with open(p, "w") as f:
            json.dump({"schemas": schemas, "cases": cases[k::K]}, f, separators=(",", ":"))
        paths.append(p)
    res = tlc.validate_shards("CodecTrace", paths, jobs=16)
    verdicts = {v["id"]: v["fails"] for v in res["verdicts"]}
    chk.add_tlc(f"CodecTrace({label} wire)", res, traces=len(cases))
    for c in cases:
        f = verdicts.get(c["id"])
        if f is None:
            raise Machinery(f"no verdict for wire case {c['id']}")
        if "harness_value_not_well_typed" in f:
            continue            # the sampler drew something the specified schema does not admit: not judged
        if f:
            chk.violation("generated_class_encodes_wrongly:" + "+".join(sorted(f))[:60],
                          f"{c['where']}: {sorted(f)} {c['err']}", {"kind": "codegen_wire", "where": c["where"]})
    return len(cases)


def snake_case_replay(chk: Check) -> None:
    res = tlc.run_tlc("MC_SnakeCase", workers=1, timeout=3000)
    if not tlc.tlc_ok(res):
        raise Machinery(f"MC_SnakeCase failed:\n{res['out'][-2000:]}")
    rows = tlc.parse_json_lines(res["out"])
    chk.add_tlc("MC_SnakeCase", res)
    sys.path.insert(0, kioenv.REPO)
    try:
        for k in [k for k in sys.modules if k == "codegen" or k.startswith("codegen.")]:
            del sys.modules[k]
        from codegen.case import to_snake_case
    finally:
        sys.path.remove(kioenv.REPO)
    import builtins
    for r in rows:
        s = s_of(r["s"])
        if len(s) < 2:
            continue        # to_snake_case raises IndexError on one-character names; no Kafka field has one
        want = s_of(r["snake"])
        if want in dir(builtins):
            want += "_"
        got = to_snake_case(s)
        chk.count()
        if got != want:
            chk.violation("snake_case_differs", f"to_snake_case({s!r}) = {got!r}, specified {want!r}",
                          {"kind": "snake", "s": s})
    chk.cov["traces_validated_against_impl"] += len(rows)
    chk.notes.append(f"{len(rows)} strings over character classes up to length 5 replayed through to_snake_case")


def check_C16(chk: Check, replay) -> None:
    chk.assumptions += ["definitions are drawn by a seeded grammar sampler over the supported subset (constructs "
                        "that occur in Kafka 3.9.0 and their free combinations); each is rendered once as upstream "
                        "JSON for the real generator and once as an abstract definition for the specification",
                        "the generator runs in a scratch copy of codegen/ and src/kio outside /repo"]
    chk.cov["rule"] = ("a case is (definition, declared version): the generated module's classes compared with "
                       "Codegen.ClassesAt (names, order, types, nullability, tags, defaults, flexibility, key, header, "
                       "dataclass options), instances encoded and validated against the specified schema, the "
                       "generated index compared with the generated modules; distinct = distinct (definition, version)")
    snake_case_replay(chk)
    batches = 6 if chk.tier == "thorough" else 1
    per = 60 if chk.tier == "thorough" else 40
    total = 0
    for b in range(batches):
        defs = defgen.batch(chk.seed * 100 + b, per)
        expected, child, wire = run_generator(chk, defs, f"b{b}")
        total += compare_generated(chk, "C16", defs, expected, child)
        if not child["gen_error"]:
            total_wire = validate_wire(chk, child, wire, f"b{b}")
            chk.cov["traces_validated_against_impl"] += total_wire
        if b == 0:
            d = defs[5]
            chk.sample({"definition": json.loads(re.sub(r"^\s*//.*$", "", defgen.to_upstream_json(d, random.Random(1)), flags=re.M)),
                        "specified_classes_v0": [c["schema"]["name"] for c in expected[(d["id"], d["valid"][0])]["classes"]]})
    chk.notes.append(f"{batches} generator runs, {total} (definition, version) modules compared")


# =============================================================================== C04
def live_types() -> dict:
    import importlib
    out = {}
    tmod = importlib.import_module("kio.schema.types")
    for k, v in vars(tmod).items():
        if isinstance(v, type) and v.__module__ == tmod.__name__:
            out[k] = [c.__name__ for c in v.__mro__[1:3]]
        elif hasattr(v, "__supertype__"):
            out[k] = ["NewType", v.__supertype__.__name__]
    return out


def class_model(c: dict) -> dict:
    """The abstract model of one class: what C04 pins and compares (formatting, docstrings and import
    order are not part of it)."""
    return {"module": c["module"], "name": c["name"], "etype": c["etype"], "version": c["version"],
            "flex": c["flex"], "api_key": c["api_key"], "header_name": c["header_name"],
            "header_version": c["header_version"], "frozen": c["frozen"], "eq": c["eq"], "order": c["order"],
            "kw_only": c["kw_only"], "slots": c["slots"],
            "fields": [{"name": f["name"], "family": f["family"], "leaf_name": f["leaf_name"],
                        "container": f["container"], "meta_keys": f["meta_keys"],
                        **{k: f["fs"][k] for k in ("kind", "arr", "ktype", "nul", "inul", "tag", "hasd")},
                        "dflt": f["fs"]["dflt"] if f["fs"]["hasd"] else project.NULL,
                        "sub": f["fs"]["sub"]["name"] if f["fs"]["kind"] == "struct" else ""}
                       for f in c["fields"]]}


def full_model(snap: dict, index: dict, errors: list, types: dict) -> dict:
    return {"classes": [class_model(c) for c in snap["classes"]],
            "exports": {m["path"]: sorted(m.get("exports", [])) for m in snap["modules"]},
            "index_keys": sorted([[k["key"], k["name"]] for k in index["keys"]]),
            "index_entries": sorted([[e["name"], e["version"], e["etype"], e["path"]] for e in index["entries"]]),
            "errors": errors, "types": {k: types[k] for k in sorted(types)}}


PIN_PATH = os.path.join(kioenv.VERIF, "pins", "schema-3.9.0.json.gz")


def families(snap: dict) -> list[list]:
    """[api, etype, key, first version, last version, first flexible version] per family."""
    fams: dict = {}
    for c in snap["classes"]:
        if c["etype"] == "nested":
            continue
        k = (c["mod_api"], c["mod_etype"])
        f = fams.setdefault(k, {"key": c["api_key"], "vs": [], "flex": []})
        f["vs"].append(c["mod_version"])
        if c["flex"]:
            f["flex"].append(c["mod_version"])
    return [[a, e, f["key"], min(f["vs"]), max(f["vs"]), min(f["flex"]) if f["flex"] else -1]
            for (a, e), f in sorted(fams.items())]


def live_model() -> tuple[dict, dict]:
    import importlib
    from . import schema_snapshot
    from kio.schema.errors import ErrorCode
    snap = schema_snapshot.snapshot()
    for m in snap["modules"]:
        m["exports"] = list(getattr(importlib.import_module(m["path"].rsplit(".", 1)[0]), "__all__", ()))
    model = full_model(snap, schema_snapshot.index_snapshot(),
                       [[e.name, int(e), bool(e.retriable)] for e in ErrorCode], live_types())
    model["families"] = families(snap)
    return snap, model


def check_pins(chk: Check, model: dict) -> None:
    """Shipped = Pinned, decided by TLC (spec/PinCheck.tla) on the two abstract models."""
    import gzip
    if not os.path.exists(PIN_PATH):
        raise Machinery(f"pin file {PIN_PATH} is missing (bin/make-pins creates it from a reviewed tree)")
    pinned = json.load(gzip.open(PIN_PATH, "rt"))
    p = os.path.join(chk.scratch, "pins.json")
    # canary: a copy of one class with a renumbered tag / changed default must be reported
    can_live = json.loads(json.dumps(model["classes"][100]))
    can_pin = json.loads(json.dumps(can_live))
    can_live["module"] = can_pin["module"] = "canary.module"
    if can_pin["fields"]:
        can_pin["fields"][0]["nul"] = not can_pin["fields"][0]["nul"]
    else:
        can_pin["flex"] = not can_pin["flex"]
    with open(p, "w") as f:
        json.dump({"live": dict(model, classes=model["classes"] + [can_live]),
                   "pin": dict(pinned, classes=pinned["classes"] + [can_pin]),
                   "families": model["families"]}, f, separators=(",", ":"))
    res = tlc.run_tlc("PinCheck", env={"KIO_TRACE_FILE": p}, workers=1, timeout=3000, xmx="8g")
    if not tlc.tlc_ok(res):
        raise Machinery(f"PinCheck failed:\n{res['out'][-3000:]}")
    reports = tlc.parse_json_lines(res["out"])
    if not any(r["id"] == "canary.module" for r in reports):
        raise Machinery("PinCheck did not report the canary difference")
    chk.add_tlc("PinCheck", res, traces=len(model["classes"]))
    live_by = {(c["module"], c["name"]): c for c in model["classes"]}
    pin_by = {(c["module"], c["name"]): c for c in pinned["classes"]}
    for r in reports:
        if r["id"] == "canary.module":
            continue
        detail = ""
        if r["kind"] == "class":
            k = (r["id"], r["name"])
            if k in live_by and k in pin_by:
                detail = first_difference(pin_by[k], live_by[k])
        chk.violation(f"shipped_differs_from_pin:{r['kind']}:{r['id']}:{r.get('name', '')}"[:120],
                      f"{r['kind']} {r['id']} {r.get('name', '')}: {r['what']} {detail}",
                      {"kind": "pin", "report": r})


def check_C04(chk: Check, replay) -> None:
    from . import reconstruct
    chk.assumptions += [
        "the upstream JSON definitions are not available offline: 'what 3.9.0 says' is represented by the "
        "committed pin pins/schema-3.9.0.json.gz (abstract model of the release taken from the pinned commit) "
        "and by spec/Pins.tla (per-family table); a defect already present in both the generator and the shipped "
        "schema at the pinned commit is invisible here (it is C16's business)",
        "the generator is exercised on definitions reconstructed from the shipped classes (inverse image of "
        "spec/Codegen.tla); information the generator discards (about texts, mapKey, exact spellings) is not compared"]
    chk.cov["rule"] = ("a case is one class of the shipped package: (1) its abstract model equals the pin (TLC, "
                       "PinCheck); (2) the current generator run on the reconstructed 186 definitions regenerates it "
                       "exactly; (3) spec/Codegen.tla derives the same class from the reconstruction; plus index, "
                       "error table, custom types and per-family pins; distinct = distinct classes")
    snap, model = live_model()
    check_pins(chk, model)
    try:
        defs = reconstruct.reconstruct(snap)
    except reconstruct.Irreconstructible as e:
        chk.violation("shipped_schema_is_not_the_image_of_any_definition", str(e), {"kind": "reconstruct"})
        return
    # error table: regenerate errors.py from the shipped enum
    from kio.schema.errors import ErrorCode
    err_path = os.path.join(chk.scratch, "errors.txt")
    with open(err_path, "w") as f:
        for e in ErrorCode:
            f.write(f"{int(e)} {e.name.upper()} {bool(e.retriable)} message of {e.name}\n")
    # equivalent spellings, chosen by the seed (metamorphic: must regenerate the same model)
    rng = random.Random(chk.seed + 4)
    texts = {}
    for d in defs:
        texts[d["id"]] = defgen.to_upstream_json(vary_spelling(d, rng), rng)
    expected, child, wire = run_generator(chk, defs, "c04", errors_file=err_path,
                                          wire_per_class=1 if chk.tier == "quick" else 3, json_texts=texts)
    # (3) + generator vs specification
    compare_generated(chk, "C04", defs, expected, child)
    if child["gen_error"]:
        return
    # (2) generated = shipped
    gen_snap = {"classes": [], "modules": []}
    for modname, m in sorted(child["modules"].items()):
        if "classes" in m:
            gen_snap["modules"].append({"path": modname, "exports": m["exports"]})
            for c in m["classes"]:
                if "describe_error" not in c:
                    gen_snap["classes"].append(c)
    gen_model = full_model(gen_snap, child["index"] if child["index"] and "error" not in child["index"]
                           else {"keys": [], "entries": []},
                           child["errors"] if isinstance(child["errors"], list) else [], child["types"])
    live_by = {(c["module"], c["name"]): c for c in model["classes"]}
    gen_by = {(c["module"], c["name"]): c for c in gen_model["classes"]}
    for k in sorted(set(live_by) | set(gen_by)):
        chk.count()
        chk.distinct(k)
        if k not in gen_by:
            chk.violation(f"shipped_class_not_regenerated:{k[0]}:{k[1]}"[:120], f"{k}: shipped but not generated from "
                          f"the reconstructed definitions", {"kind": "fixpoint", "class": list(k)})
        elif k not in live_by:
            chk.violation(f"generated_class_not_shipped:{k[0]}:{k[1]}"[:120], f"{k}: generated but not shipped",
                          {"kind": "fixpoint", "class": list(k)})
        elif live_by[k] != gen_by[k]:
            chk.violation(f"regenerated_class_differs:{k[0]}:{k[1]}"[:120],
                          f"{k}: {first_difference(live_by[k], gen_by[k])} (shipped vs regenerated)",
                          {"kind": "fixpoint", "class": list(k)})
    for part in ("exports", "index_keys", "index_entries", "errors", "types"):
        if model[part] != gen_model[part]:
            chk.violation(f"regenerated_{part}_differ", f"{part}: {first_difference(model[part], gen_model[part])}",
                          {"kind": "fixpoint", "part": part})
    if not child["gen_error"]:
        nw = validate_wire(chk, child, wire, "c04")
        chk.cov["traces_validated_against_impl"] += nw
    chk.cov["exhaustive"] = True
    chk.notes.append(f"{len(model['classes'])} classes in {len(snap['modules'])} modules, "
                     f"{sum(len(c['fields']) for c in model['classes'])} fields, {len(model['index_keys'])} api keys, "
                     f"{len(model['errors'])} error codes, {len(defs)} reconstructed definitions regenerated; "
                     f"pin canary rejected")
    chk.sample({"reconstructed_definition": json.loads(re.sub(r"^\s*//.*$", "", texts[defs[40]["id"]], flags=re.M))})


def vary_spelling(d: dict, rng: random.Random) -> dict:
    """Equivalent spellings upstream uses: hex vs decimal integer defaults; `ignorable` on tagged fields
    that have an explicit default."""
    d = json.loads(json.dumps(d))

    def walk(fs):
        for f in fs:
            # `ignorable` is not recorded in a generated class; where an explicit default exists it must not
            # matter (upstream marks most tagged fields ignorable, e.g. FinalizedFeaturesEpoch default -1)
            if f["hasdefault"] and f.get("tagged") not in (None, defgen.NONE) and f["tag"] >= 0:
                f["ignorable"] = True
            if (f["hasdefault"] and f["tk"] == "prim" and f["t"] in ("int8", "int16", "int32", "int64", "uint16", "uint32")
                    and f["spelling"] and f["spelling"].isdigit() and f["name"] not in ("ErrorCode", "PartitionErrorCode")
                    and not f["name"].endswith("Ms") and rng.random() < 0.3):
                f["spelling"] = hex(int(f["spelling"]))
            walk(f["fields"])
    walk(d["fields"])
    for c in d["common"]:
        walk(c["fields"])
    return d
