"""Checks C17 and C18: kio.records against spec/RecordBatch.tla (with its own CRC-32C)."""
from __future__ import annotations

import concurrent.futures
import copy
import json
import os

from . import record_driver as rd, tlc
from .checklib import Check, Machinery
from .checks_codec import pmap

ASSUMPTIONS = [
    "the checksum oracle is spec/Crc32c.tla (table derived from the polynomial in TLA+, check value "
    "0xE3069283), not the crc32c wheel kio uses",
    "that every single-bit flip / wrong magic / truncation is detected by a correct reader is model-checked "
    "(MC_RecordBatch) on a bounded universe; in conformance the faulted inputs are not re-decoded by the "
    "specification (60 us per checksummed byte in TLC), only kio's outcome is judged",
    "timestamps cross the boundary as exact integer milliseconds (integer timedelta arithmetic)",
]


def _mc(chk: Check) -> None:
    cfg = "MC_RecordBatch_thorough.cfg" if chk.tier == "thorough" else "MC_RecordBatch_quick.cfg"
    res = tlc.run_tlc("MC_RecordBatch", cfg=cfg, workers=16, timeout=6 * 3600, xmx="8g")
    if not tlc.tlc_ok(res):
        raise Machinery(f"MC_RecordBatch failed:\n{res['out'][-2500:]}")
    chk.add_tlc(f"MC_RecordBatch/{cfg}", res)
    if chk.tier == "thorough":
        res = tlc.run_tlc("MC_RecordBatch", cfg="MC_RecordBatch_pairs.cfg", workers=16, timeout=6 * 3600, xmx="8g")
        if not tlc.tlc_ok(res):
            raise Machinery(f"MC_RecordBatch (pairs) failed:\n{res['out'][-2500:]}")
        chk.add_tlc("MC_RecordBatch/MC_RecordBatch_pairs.cfg", res)


def _slices(n: int, k: int):
    return [(i * n // k, (i + 1) * n // k) for i in range(k)]


def check_C17(chk: Check, replay) -> None:
    chk.assumptions += ASSUMPTIONS
    chk.cov["rule"] = ("a case is one NewRecordBatch (1..40 records; offsets and millisecond timestamps in any "
                       "order within representable deltas; null/empty/boundary-length keys, values, headers; "
                       "limits of every batch parameter) written by kio; distinct = distinct (params, records)")
    _mc(chk)
    n = 1600 if chk.tier == "thorough" else 320
    args = [(os.path.join(chk.scratch, f"new{i}.json"), lo, hi, chk.seed + 1)
            for i, (lo, hi) in enumerate(_slices(n, 16))]
    infos = pmap(rd.gen_new_shard, args)
    # two writers at a time, preempted at every switch point (the format must not depend on the schedule)
    thorough = chk.tier == "thorough"
    cargs = [(os.path.join(chk.scratch, f"conc{i}.json"), lo, hi, chk.seed + 5, 150 if thorough else 24,
              30 if thorough else 6) for i, (lo, hi) in enumerate(_slices(64 if thorough else 16, 16))]
    cinfos = pmap(rd.concurrent_new_shard, cargs)
    infos = infos + [i for i in cinfos if i["cases"]]
    n += sum(i["cases"] for i in cinfos)
    chk.notes.append(f"{sum(i['runs'] for i in cinfos)} two-thread runs of write_batch pairs "
                     f"({sum(i['switches'] for i in cinfos)} forced thread switches), "
                     f"{sum(i['cases'] for i in cinfos)} distinct outputs validated")
    with open(infos[0]["path"]) as f:
        shard0 = json.load(f)
    donor = next(c for c in shard0["cases"] if c["wout"] == "ok")
    can = copy.deepcopy(donor)
    can["id"] = "canary_offset"
    can["recs"][0]["offset"] = {"int": 12345}
    shard0["cases"].append(can)
    rd.write_cases(infos[0]["path"], shard0["cases"])
    res = tlc.validate_shards("RecordTrace", [i["path"] for i in infos], jobs=16)
    verdicts = {v["id"]: v["fails"] for v in res["verdicts"]}
    if not verdicts.get("canary_offset"):
        raise Machinery("canary was not rejected by RecordTrace")
    chk.add_tlc("RecordTrace(new)", res, traces=n)
    chk.notes.append(f"{n} new batches written by kio and validated write call by write call; 1 canary rejected")
    for info in infos:
        with open(info["path"]) as fh:
            for c in json.load(fh)["cases"]:
                if c["id"].startswith("canary"):
                    continue
                chk.count()
                chk.distinct(json.dumps([c["p"], c["recs"]])[:3000])
                if len(chk.cov["samples"]) < 2:
                    chk.sample({"params": c["p"], "records": c["recs"][:2], "write_events": c["wev"][:6]})
                f = verdicts.get(c["id"])
                if f is None:
                    raise Machinery(f"no verdict for {c['id']}")
                if any(x.startswith("harness_") or x.startswith("spec_") for x in f):
                    raise Machinery(f"case {c['id']}: {f}")
                if f:
                    chk.violation("+".join(sorted(f))[:90],
                                  f"new batch {c['id']} ({len(c['recs'])} records"
                                  + (f", two threads, schedule {c['sched']}" if "sched" in c else "")
                                  + f"): {sorted(f)} {c['werr']} "
                                  f"first record {json.dumps(c['recs'][0])[:300]}",
                                  {"kind": "newbatch", "p": c["p"], "recs": c["recs"]})


def check_C18(chk: Check, replay) -> None:
    chk.assumptions += ASSUMPTIONS
    chk.cov["rule"] = ("a case is one well-formed batch (specification-encoded, or a real-broker fixture from "
                       "tests/fixtures.py) read by kio, written back, and re-read under every single-bit flip "
                       "from the CRC field to the end, wrong magic bytes and every truncation (sampled for "
                       "large batches); evaluations count batches plus faulted reads")
    _mc(chk)
    n = 640 if chk.tier == "thorough" else 64
    in_args = [(os.path.join(chk.scratch, f"enc{i}.json"), lo, hi, chk.seed + 2)
               for i, (lo, hi) in enumerate(_slices(n, 16))]
    ins = pmap(rd.gen_enc_inputs, in_args)

    def one(p):
        return tlc.run_tlc("RecordTrace", env={"KIO_TRACE_FILE": p}, workers=1, timeout=3000)

    with concurrent.futures.ThreadPoolExecutor(max_workers=16) as ex:
        results = list(ex.map(one, [i["path"] for i in ins]))
    encoded = []
    for r in results:
        if not tlc.tlc_ok(r):
            raise Machinery(f"RecordTrace(enc) failed:\n{r['out'][-2500:]}")
        encoded.append(tlc.parse_json_lines(r["out"]))
    chk.add_tlc("RecordTrace(enc,pass1)", {"states": sum(r["states"] for r in results),
                                            "generated": sum(r["generated"] for r in results),
                                            "wall": max(r["wall"] for r in results)})
    fixtures = rd.fixture_batches()
    if len(fixtures) < 4:
        raise Machinery(f"expected the 4 real-broker fixture batches, found {len(fixtures)}")
    out_args = [(ins[i]["path"], encoded[i], fixtures if i == 0 else [],
                 os.path.join(chk.scratch, f"read{i}.json"), chk.seed + 3, 400) for i in range(len(ins))]
    infos = pmap(rd.gen_read_shard, out_args)
    thorough = chk.tier == "thorough"
    cargs = [(ins[i]["path"], encoded[i], os.path.join(chk.scratch, f"cread{i}.json"), chk.seed + 6,
              150 if thorough else 24, 30 if thorough else 6) for i in range(len(ins))]
    cinfos = [i for i in pmap(rd.concurrent_read_shard, cargs)]
    chk.notes.append(f"{sum(i['runs'] for i in cinfos)} two-thread runs of read_batch/write_batch pairs "
                     f"({sum(i['switches'] for i in cinfos)} forced thread switches), "
                     f"{sum(i['cases'] for i in cinfos)} distinct outcomes validated")
    infos = infos + [i for i in cinfos if i["cases"]]
    with open(infos[1]["path"]) as f:
        shard = json.load(f)
    donor = next(c for c in shard["cases"] if c["rout"] == "ok")
    can = copy.deepcopy(donor)
    can["id"] = "canary_fault"
    can["faults"][3]["out"] = "returned"
    can2 = copy.deepcopy(donor)
    can2["id"] = "canary_header"
    can2["rbatch"]["producer_epoch"] = {"int": 4242}
    shard["cases"] += [can, can2]
    rd.write_cases(infos[1]["path"], shard["cases"])
    res = tlc.validate_shards("RecordTrace", [i["path"] for i in infos], jobs=16)
    verdicts = {v["id"]: v["fails"] for v in res["verdicts"]}
    if not verdicts.get("canary_fault") or not verdicts.get("canary_header"):
        raise Machinery("a canary was not rejected by RecordTrace")
    nf = sum(i["faults"] for i in infos)
    chk.add_tlc("RecordTrace(read)", res, traces=sum(i["cases"] for i in infos) + nf)
    chk.notes.append(f"{sum(i['cases'] for i in infos)} batches ({len(fixtures)} real-broker fixtures), {nf} faulted "
                     f"reads; 2 canaries rejected")
    for info in infos:
        with open(info["path"]) as fh:
            for c in json.load(fh)["cases"]:
                if c["id"].startswith("canary"):
                    continue
                chk.count(1 + len(c["faults"]))
                chk.distinct(json.dumps(c["input"])[:3000])
                if len(chk.cov["samples"]) < 2:
                    chk.sample({"id": c["id"], "src": c["src"], "input": c["input"], "read": c["rbatch"],
                                "faults": c["faults"][:4]})
                f = verdicts.get(c["id"])
                if f is None:
                    raise Machinery(f"no verdict for {c['id']}")
                if any(x.startswith("harness_") for x in f):
                    raise Machinery(f"case {c['id']}: {f}")
                for clause in f:
                    key = clause[len("known:"):] if clause.startswith("known:") else clause
                    bad = [x for x in c["faults"] if x["out"] != "raised"][:3]
                    chk.violation(key, f"batch {c['id']} ({c['src']}): {clause} {c['rerr']} "
                                       f"{('faults read: ' + json.dumps(bad)) if bad and 'was_read' in clause else ''}",
                                  {"kind": "readbatch", "input": c["input"]})
    chk.cov["distinct_nontrivial"] = max(chk.cov["distinct_nontrivial"], len(chk._distinct))
