"""Shared plumbing of all checks: tiers, seeds, scratch space, verdict bookkeeping, known
findings, replay files, evidence files and exit codes.

Exit codes: 0 property held on everything explored (possibly with KNOWN-FINDING lines),
            1 violation (a line `VIOLATION property=<id> replay=<path>` is printed),
            2 machinery failure (TLC error, missing verdict, canary not rejected, ...).
"""
from __future__ import annotations

import hashlib
import json
import os
import re
import shutil
import sys
import tempfile
import time
import traceback

from . import kioenv

VERIF = kioenv.VERIF
EVIDENCE_DIR = os.environ.get("KIO_VERIF_EVIDENCE_DIR", os.path.join(VERIF, "evidence"))
OUT_DIR = os.environ.get("KIO_VERIF_OUT_DIR", os.path.join(VERIF, "out"))
KNOWN_FILE = os.path.join(VERIF, "known_findings.txt")


class Machinery(Exception):
    pass


def load_known() -> dict:
    """known_findings.txt lines:
         known: property=<id> key=<key> <what fails>
         fixed: property=<id> <commit> <what failed>       (documents only; suppresses nothing)
    """
    known = {}
    if os.path.exists(KNOWN_FILE):
        for line in open(KNOWN_FILE):
            m = re.match(r"known:\s+property=(\S+)\s+key=(\S+)\s+(.*)", line.strip())
            if m:
                known[(m.group(1), m.group(2))] = m.group(3)
    return known


class Check:
    def __init__(self, pid: str, tier: str, level: str = "model_checking"):
        self.pid = pid
        self.tier = tier
        self.level = level
        self.seed = int(os.environ.get("VERIF_SEED", "0") or 0)
        self.t0 = time.time()
        self.scratch = tempfile.mkdtemp(prefix=f"kioverif-{pid}-")
        self.violations: list[dict] = []      # {key, what, replay}
        self.known_hits: dict[str, int] = {}
        self.known = load_known()
        self.cov = {"states": 0, "transitions": 0, "traces_validated_against_impl": 0,
                    "evaluations": 0, "distinct_nontrivial": 0, "samples": [], "rule": "",
                    "parts": {}}
        self._distinct = set()
        self.assumptions: list[str] = []
        self.notes: list[str] = []

    # ---- bookkeeping
    def add_tlc(self, name: str, res: dict, traces: int = 0) -> None:
        self.cov["states"] += int(res.get("states", 0))
        self.cov["transitions"] += int(res.get("transitions", res.get("generated", 0)))
        self.cov["traces_validated_against_impl"] += traces
        self.cov["parts"][name] = {
            "states": int(res.get("states", 0)),
            "transitions": int(res.get("transitions", res.get("generated", 0))),
            "traces": traces, "wall_s": round(res.get("wall", 0.0), 2)}
        if res.get("actions"):
            self.cov["parts"][name]["action_counts"] = dict(res["actions"])

    def count(self, n: int = 1) -> None:
        self.cov["evaluations"] += n

    def distinct(self, key) -> None:
        h = hashlib.blake2b(repr(key).encode(), digest_size=8).digest()
        self._distinct.add(h)

    def sample(self, obj, limit: int = 3) -> None:
        if len(self.cov["samples"]) < limit:
            s = json.dumps(obj, default=str)
            if len(s) > 3000:
                obj = {"truncated": s[:3000]}
            self.cov["samples"].append(obj)

    def violation(self, key: str, what: str, replay_obj: dict | None = None) -> None:
        """Record a disagreement.  A key listed in known_findings.txt is a known finding."""
        if (self.pid, key) in self.known:
            self.known_hits[key] = self.known_hits.get(key, 0) + 1
            return
        path = ""
        if replay_obj is not None and len(self.violations) < 20:
            os.makedirs(OUT_DIR, exist_ok=True)
            name = re.sub(r"[^A-Za-z0-9_.-]", "_", f"{self.pid}-{key[:40]}-{len(self.violations)}-{os.getpid()}.json")
            path = os.path.join(OUT_DIR, name)
            with open(path, "w") as f:
                json.dump({"property": self.pid, "key": key, "what": what, "seed": self.seed, "tier": self.tier,
                           "case": replay_obj}, f)
        self.violations.append({"key": key, "what": what, "replay": path})

    # ---- finish
    def finish(self) -> int:
        wall = time.time() - self.t0
        self.cov["distinct_nontrivial"] = max(self.cov["distinct_nontrivial"], len(self._distinct))
        cov = dict(self.cov)
        if not cov["samples"]:
            cov["samples"] = [{"note": "no cases"}]
        cov["known_findings_hit"] = self.known_hits
        ev = {
            "property_id": self.pid, "tier": self.tier, "seed": self.seed, "level": self.level,
            "coverage": cov, "assumptions": self.assumptions, "wall_s": round(wall, 2),
            "violations": len(self.violations), "notes": self.notes,
            "repo": kioenv.REPO,
        }
        if not getattr(self, "is_replay", False):
            os.makedirs(EVIDENCE_DIR, exist_ok=True)
            tmp = os.path.join(EVIDENCE_DIR, f".{self.pid}.json.tmp")
            with open(tmp, "w") as f:
                json.dump(ev, f, indent=1, default=str)
            os.replace(tmp, os.path.join(EVIDENCE_DIR, f"{self.pid}.json"))
        shutil.rmtree(self.scratch, ignore_errors=True)
        for key, n in sorted(self.known_hits.items()):
            print(f"KNOWN-FINDING: property={self.pid} {key}: {self.known[(self.pid, key)]} ({n} cases)")
        seen = set()
        for v in self.violations:
            if v["key"] in seen:
                continue
            seen.add(v["key"])
            print(f"VIOLATION property={self.pid} replay={v['replay'] or '-'}  [{v['key']}] {v['what'][:300]}")
        print(f"{self.pid} {self.tier}: {'FAIL' if self.violations else 'ok'} "
              f"states={cov['states']} traces={cov['traces_validated_against_impl']} "
              f"evaluations={cov['evaluations']} violations={len(self.violations)} wall={wall:.1f}s")
        return 1 if self.violations else 0

    def abort(self, msg: str) -> int:
        shutil.rmtree(self.scratch, ignore_errors=True)
        print(f"MACHINERY-ERROR property={self.pid}: {msg}", file=sys.stderr)
        return 2


def main_wrapper(fn, pid: str, argv: list[str]) -> int:
    import argparse
    ap = argparse.ArgumentParser(prog=f"check {pid}")
    ap.add_argument("--tier", default=os.environ.get("VERIF_TIER", "quick"),
                    choices=["quick", "thorough"])
    ap.add_argument("--replay", default=None)
    a = ap.parse_args(argv)
    want_key = None
    if a.replay:
        # a replay file names the failing case and the seed/tier of the run that found it.  Checks that
        # can re-run the single case do so (C01/C02); for the others the run is repeated with the recorded
        # seed and tier, and the replay succeeds in reproducing iff the same finding key comes back.
        with open(a.replay) as f:
            rep = json.load(f)
        if rep.get("property") != pid:
            print(f"replay file is for {rep.get('property')}, not {pid}", file=sys.stderr)
            return 2
        if pid not in ("C01", "C02"):
            os.environ["VERIF_SEED"] = str(rep.get("seed", 0))
            a.tier = rep.get("tier", a.tier)
            want_key, a.replay = rep.get("key"), None
    chk = Check(pid, a.tier)
    chk.is_replay = bool(a.replay) or want_key is not None     # a replay does not rewrite the evidence file
    try:
        fn(chk, a.replay)
        if want_key is not None:
            keys = {v["key"] for v in chk.violations}
            print(f"replay of [{want_key}]: {'reproduced' if want_key in keys else 'NOT reproduced'}")
        return chk.finish()
    except Exception as e:  # noqa: BLE001
        traceback.print_exc()
        return chk.abort(f"{type(e).__name__}: {e}")
