"""Snapshot of the live kio.schema configuration for spec/SchemaModel.tla (C08, C09, C13, C14).

The package is walked on disk with pkgutil (not through kio.index), so a module that exists but
nothing imports is still seen.  Everything is reported as found; all rules live in the spec.
"""
from __future__ import annotations

import dataclasses
import importlib
import types
import typing

from . import kioenv, project

kioenv.activate()

KNOWN_TYPE_NAMES = ["i8", "i16", "i32", "i64", "u8", "u16", "u32", "u64", "uvarint", "uvarlong",
                    "svarint", "svarlong", "f64", "i32Timedelta", "i64Timedelta", "TZAware",
                    "TZAwareMicros", "Records", "ErrorCode", "UUID", "bool", "str", "bytes", "int",
                    "float", "timedelta", "datetime"]


def cps(s: str) -> list[int]:
    return [ord(c) for c in s]


def leaf_type_desc(t) -> dict:
    """Names along the MRO of the leaf annotation (first known name decides the family)."""
    if dataclasses.is_dataclass(t):
        return {"family": "struct", "mro": [t.__name__], "module": t.__module__}
    names = []
    if isinstance(t, type):
        names = [c.__name__ for c in t.__mro__]
    elif hasattr(t, "__supertype__"):          # typing.NewType
        st = t.__supertype__
        names = [t.__name__] + [c.__name__ for c in st.__mro__]
    else:
        names = [getattr(t, "__name__", repr(t))]
    fam = next((n for n in names if n in KNOWN_TYPE_NAMES), "unknown")
    return {"family": fam, "mro": names[:6], "module": getattr(t, "__module__", "")}


def annotation_desc(t) -> dict:
    """Shape of a field annotation: optional?, container, item optional?, leaf."""
    nul = inul = False
    container = "none"
    try:
        t, nul = project._unwrap(t)
    except project.ProjectionError:
        return {"nul": False, "container": "bad_union", "inul": False, "leaf": leaf_type_desc(object),
                "leaf_type": object}
    origin = typing.get_origin(t)
    if origin is not None:
        args = typing.get_args(t)
        if origin is tuple and len(args) == 2 and args[1] is Ellipsis:
            container = "tuple"
            t = args[0]
        else:
            container = "other:" + getattr(origin, "__name__", str(origin))
            t = args[0] if args else object
        try:
            t, inul = project._unwrap(t)
        except project.ProjectionError:
            container = "bad_union"
    return {"nul": nul, "container": container, "inul": inul, "leaf": leaf_type_desc(t), "leaf_type": t}


RD_NA = {"status": "n/a", "same_class": True, "value": project.NULL}


def resolved_default(f, fs: dict, leaf_type) -> dict:
    """What the library resolves as the default of a tagged field (explicit or implicit)."""
    from kio.serial._implicit_defaults import get_tagged_field_default
    try:
        v = get_tagged_field_default(f)
    except Exception as e:  # noqa: BLE001
        return {"status": "raised:" + type(e).__name__, "same_class": True, "value": project.NULL}
    same = True
    if fs["kind"] == "struct" and not fs["arr"] and v is not None:
        same = type(v) is leaf_type
    try:
        val = project.project_value(v, fs)
    except Exception:  # noqa: BLE001
        return {"status": "unprojectable", "same_class": same, "value": project.NULL}
    return {"status": "ok", "same_class": same, "value": val}


def describe_class(cls: type) -> dict:
    hints = typing.get_type_hints(cls)
    params = cls.__dataclass_params__
    fields = []
    for f in dataclasses.fields(cls):
        a = annotation_desc(hints[f.name])
        kt = f.metadata.get("kafka_type", "")
        tag = f.metadata.get("tag", -1)
        fs = {"name": f.name, "kind": "struct" if a["leaf"]["family"] == "struct" else "prim",
              "arr": a["container"] == "tuple", "ktype": kt if isinstance(kt, str) else "<non-str>",
              "nul": a["nul"], "inul": a["inul"], "tag": tag if isinstance(tag, int) and not isinstance(tag, bool) else -999,
              "hasd": f.default is not dataclasses.MISSING or f.default_factory is not dataclasses.MISSING,
              "dflt": project.NULL, "sub": project.DUMMY_SUB}
        dflt_ok = True
        if fs["kind"] == "struct":
            fs["sub"] = project.project_schema(a["leaf_type"])
        if f.default is not dataclasses.MISSING:
            try:
                fs["dflt"] = project.project_value(f.default, fs)
            except Exception:  # noqa: BLE001
                dflt_ok = False
        elif f.default_factory is not dataclasses.MISSING:
            dflt_ok = False
        rd = resolved_default(f, fs, a["leaf_type"]) if fs["tag"] >= 0 else RD_NA
        fields.append({"name": f.name, "rd": rd, "rd_again": rd,
                       "container": a["container"], "family": a["leaf"]["family"],
                       "leaf_module": a["leaf"]["module"], "leaf_name": a["leaf"]["mro"][0],
                       "meta_keys": sorted(str(k) for k in f.metadata.keys()),
                       "dflt_projectable": dflt_ok, "fs": fs})
    hs = getattr(cls, "__header_schema__", None)
    top = getattr(cls, "__type__", None)
    d = {
        "sid": project.sid_of(cls), "module": cls.__module__, "name": cls.__name__,
        "name_cp": cps(cls.__name__),
        "etype": getattr(top, "name", "<none>"),
        "version": int(cls.__version__) if isinstance(getattr(cls, "__version__", None), int) else -1,
        "flex": bool(getattr(cls, "__flexible__", False)),
        "flex_is_bool": isinstance(getattr(cls, "__flexible__", None), bool),
        "api_key": int(cls.__api_key__) if isinstance(getattr(cls, "__api_key__", None), int) else -1000,
        "header_name": hs.__name__ if hs else "",
        "header_version": int(hs.__version__) if hs else -1,
        "header_module": hs.__module__ if hs else "",
        "frozen": bool(params.frozen), "eq": bool(params.eq), "order": bool(params.order),
        "kw_only": bool(getattr(params, "kw_only", False)),
        "slots": "__slots__" in cls.__dict__, "has_dict": "__dict__" in dir(cls) and any(
            "__dict__" in c.__dict__ for c in cls.__mro__[:-1]),
        "unsafe_hash": bool(params.unsafe_hash),
        "fields": fields,
    }
    return d


def try_build(cls: type) -> tuple[bool, str]:
    from kio.serial import entity_reader, entity_writer
    try:
        entity_reader(cls)
        entity_writer(cls)
        return True, ""
    except Exception as e:  # noqa: BLE001
        return False, f"{type(e).__name__}: {e}"[:200]


def snapshot() -> dict:
    mods = project.walk_schema_modules()
    classes, modules = [], []
    for mod in mods:
        parts = mod.__name__.split(".")
        if len(parts) < 5:
            continue            # kio.schema.errors, .types, .index and the per-version __init__
        clss = project.module_classes(mod)
        api, ver, etype = parts[2], parts[3], parts[4]
        modules.append({"path": mod.__name__, "api": api, "api_cp": cps(api),
                        "version": int(ver[1:]) if ver[1:].isdigit() else -1, "etype": etype,
                        "classes": [c.__name__ for c in clss],
                        "all": list(getattr(mod, "__all__", ()))})
        for c in clss:
            d = describe_class(c)
            d["mod_api"], d["mod_version"], d["mod_etype"] = api, modules[-1]["version"], etype
            ok, err = try_build(c)
            d["buildable"], d["build_error"] = ok, err
            classes.append(d)
    # once more after every reader and writer has been derived: the resolved default of a tagged field
    # is a function of the field alone
    by_sid = {d["sid"]: d for d in classes}
    for mod in mods:
        for c in project.module_classes(mod):
            d = by_sid.get(project.sid_of(c))
            if d is None:
                continue
            hints = typing.get_type_hints(c)
            for f, fd in zip(dataclasses.fields(c), d["fields"]):
                if fd["fs"]["tag"] >= 0:
                    fd["rd_again"] = resolved_default(f, fd["fs"], annotation_desc(hints[f.name])["leaf_type"])
    return {"classes": classes, "modules": modules}


def index_snapshot() -> dict:
    from kio.schema import index as gen
    keys = [{"key": int(k), "name": str(v)} for k, v in gen.api_key_map.items()]
    entries = []
    for name, vm in gen.schema_name_map.items():
        for ver, tm in vm.items():
            for et, path in tm.items():
                entries.append({"name": name, "version": int(ver), "etype": et.name, "path": path})
    return {"keys": keys, "entries": entries}
