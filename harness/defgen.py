"""Seeded generator of well-formed Kafka message definitions in the subset the project's code
generator supports (C16).  For every definition two renderings are produced from ONE description:
  * the upstream JSON text (with // comment lines, spelling variants of ranges and defaults) for
    the real parser/generator;
  * the abstract definition for spec/Codegen.tla, carrying what each spelling MEANS.
"""
from __future__ import annotations

import builtins as _builtins
import json
import keyword
import random

from .project import NULL, afloat, aint

OPEN = 999
NONE = [1, 0]

PRIMS = ["bool", "int8", "int16", "int32", "int64", "uint16", "uint32", "uint64", "float64", "string",
         "bytes", "uuid"]
TIMEDELTA_NAMES = ["TimeoutMs", "ThrottleTimeMs", "MaxWaitMs", "SessionLifetimeMs", "RebalanceTimeoutMs",
                   "RetentionTimeMs"]
DATETIME_NAMES = ["IssueTimestampMs", "ExpiryTimestampMs", "MaxTimestampMs", "LogAppendTimeMs"]
ERROR_NAMES = ["ErrorCode", "PartitionErrorCode"]
WORDS = ["Topic", "Id", "ISR", "Replicas", "Name", "V3", "Max", "Type", "Hash", "Offset", "Leader", "Epoch",
         "Q", "Is", "What", "Partition", "Index", "Metadata", "And", "Below", "Host", "Port", "Rack", "URL",
         "Ids", "Filter", "Format", "Input", "Range", "Key", "Value", "Config", "In", "Sync"]
ENTITY_TYPES = {"int32": ["brokerId"], "string": ["topicName", "groupId", "transactionalId"], "int64": ["producerId"]}


def cps(s: str) -> list[int]:
    return [ord(c) for c in s]


def spell_range(r: list[int], rng: random.Random, top: int) -> str:
    lo, hi = r
    if r == NONE:
        return "none"
    if hi == OPEN:
        return f"{lo}+"
    if lo == hi:
        return str(lo)
    return f"{lo}-{hi}"


class DefGen:
    def __init__(self, seed: int):
        self.r = random.Random(seed)
        self.n = 0

    def fname(self, used: set) -> str:
        r = self.r
        for _ in range(50):
            n = "".join(r.choice(WORDS) for _ in range(r.choice([1, 2, 2, 3])))
            # outside the supported subset: one-character names (to_snake_case raises) and names whose
            # snake case is a Python keyword (the generated module would not compile)
            if (n not in used and not n.endswith("Ms") and n not in ERROR_NAMES and len(n) > 1
                    and n.lower() not in keyword.kwlist):
                used.add(n)
                return n
        raise RuntimeError("no name")

    def vrange(self, lo: int, hi: int, allow_partial=True) -> list[int]:
        """A range for a field inside the definition's valid range lo..hi."""
        r = self.r
        c = r.random()
        if not allow_partial or c < 0.45 or lo == hi:
            return [lo, OPEN]
        a = r.randint(lo, hi)
        if c < 0.7:
            return [a, OPEN]
        b = r.randint(a, hi)
        return [a, b]

    def default_for(self, kt: str, nullable_somewhere: bool):
        """(meaning as abstract value, upstream spelling) or None."""
        r = self.r
        if kt in ("int8", "int16", "int32", "int64", "uint16", "uint32", "uint64"):
            hi = {"int8": 127, "int16": 32767, "uint16": 65535}.get(kt, 2**31 - 1)
            v = r.choice([0, 1, -1 if not kt.startswith("u") else 2, 5, hi, 255])
            v = min(v, hi)
            sp = r.choice([str(v), hex(v)]) if v >= 0 else str(v)
            return aint(v), sp
        if kt == "bool":
            v = r.choice([0, 1])
            return {"int": v}, ["false", "true"][v]
        if kt == "float64":
            v = r.choice([0.0, 0.5, 1.0, 2.5])
            return afloat(v), str(v)
        if kt == "string":
            if nullable_somewhere and r.random() < 0.4:
                return NULL, "null"
            v = r.choice(["", "abc", "none?", "x y"])
            return {"blob": list(v.encode())}, v
        if kt == "bytes":
            return (NULL, "null") if nullable_somewhere else None
        return None

    def prim_field(self, used: set, lo: int, hi: int, flex_lo: int | None) -> dict:
        r = self.r
        c = r.random()
        f = {"fields": [], "ignorable": r.random() < 0.4, "etype": "", "hasdefault": False, "default": NULL,
             "spelling": None, "tag": -1, "tagged": NONE, "nullable": NONE, "tk": "prim"}
        if c < 0.1:
            name, t = r.choice(ERROR_NAMES), "int16"
            if name in used:
                name = self.fname(used)
                t = "int16"
            used.add(name)
        elif c < 0.2:
            name = r.choice(TIMEDELTA_NAMES)
            t = r.choice(["int32", "int64"])
            if name in used:
                name, t = self.fname(used), "int32"
            used.add(name)
        elif c < 0.27:
            name, t = r.choice(DATETIME_NAMES), "int64"
            if name in used:
                name = self.fname(used)
            used.add(name)
        else:
            name, t = self.fname(used), r.choice(PRIMS + ["string", "int32", "records"])
        f["name"], f["t"] = name, t
        f["versions"] = self.vrange(lo, hi)
        special = name in TIMEDELTA_NAMES or name in DATETIME_NAMES or name in ERROR_NAMES
        kt = ("error_code" if name in ERROR_NAMES else "timedelta" if name in TIMEDELTA_NAMES else
              "datetime" if name in DATETIME_NAMES else t)
        if t in ("string", "bytes", "records") and r.random() < 0.4:
            a = r.randint(f["versions"][0], min(hi, f["versions"][1]))
            f["nullable"] = [a, OPEN]
        if t == "records":
            f["nullable"] = [f["versions"][0], OPEN] if r.random() < 0.7 else NONE
            return f
        # tagging (flexible versions only)
        if flex_lo is not None and flex_lo <= hi and r.random() < 0.3 and kt != "uuid":
            a = max(flex_lo, f["versions"][0])
            if a <= min(hi, f["versions"][1]):
                f["tagged"] = [a, OPEN]
                if r.random() < 0.3:
                    f["versions"] = None        # omitted: taggedVersions stands in for versions
        # defaults
        if name in DATETIME_NAMES:
            if r.random() < 0.6:
                f["hasdefault"], f["default"], f["spelling"] = True, aint(-1), "-1"
        elif name in TIMEDELTA_NAMES:
            if r.random() < 0.4:
                ms = r.choice([0, 1000, 30000, -1])
                f["hasdefault"], f["default"], f["spelling"] = True, aint(ms), str(ms)
        elif name in ERROR_NAMES:
            if r.random() < 0.2:
                f["hasdefault"], f["default"], f["spelling"] = True, aint(0), "0"
        else:
            d = self.default_for(t, f["nullable"] != NONE and f["nullable"][0] <= (f["versions"] or f["tagged"])[0])
            if d is not None and r.random() < 0.5:
                f["hasdefault"], f["default"], f["spelling"] = True, d[0], d[1]
        if f["tagged"] != NONE:
            # a tagged field needs a default kio can resolve: explicit, or ignorable (zero/None)
            if not f["hasdefault"]:
                f["ignorable"] = True
            if f["hasdefault"] and "null" in f["default"]:
                f["nullable"] = [min((f["versions"] or f["tagged"])[0], f["tagged"][0]), OPEN]
            if f["nullable"] != NONE and not (f["hasdefault"] and "null" in f["default"]):
                f["nullable"] = NONE            # nullable tagged fields default to null in kio's subset
        if f["hasdefault"] and "null" in f["default"] and f["nullable"] != NONE:
            v0 = (f["versions"] or f["tagged"])[0]
            f["nullable"] = [v0, OPEN]          # a null default must be representable wherever the field exists
        if t in ENTITY_TYPES and not special and r.random() < 0.25:
            f["etype"] = r.choice(ENTITY_TYPES[t])
        return f

    def struct_fields(self, lo: int, hi: int, flex_lo, depth: int, all_defaults: bool = False) -> list[dict]:
        r = self.r
        used: set = set()
        out = []
        for _ in range(r.choice([1, 2, 2, 3])):
            if all_defaults:
                name = self.fname(used)
                t = r.choice(["int32", "int64", "int16", "string"])
                d = self.default_for(t, False)
                out.append({"name": name, "t": t, "tk": "prim", "versions": [lo, OPEN], "nullable": NONE,
                            "tagged": NONE, "tag": -1, "hasdefault": True, "default": d[0], "spelling": d[1],
                            "ignorable": False, "etype": "", "fields": []})
            else:
                out.append(self.any_field(used, lo, hi, flex_lo, depth + 1))
        return out

    def any_field(self, used: set, lo: int, hi: int, flex_lo, depth: int) -> dict:
        r = self.r
        c = r.random()
        if c < 0.62 or depth >= 2:
            return self.prim_field(used, lo, hi, flex_lo)
        name = self.fname(used)
        base = {"name": name, "ignorable": False, "etype": "", "hasdefault": False, "default": NULL,
                "spelling": None, "tag": -1, "tagged": NONE, "nullable": NONE, "fields": [],
                "versions": self.vrange(lo, hi)}
        v0, v1 = base["versions"][0], min(hi, base["versions"][1])
        if c < 0.74:            # primitive array
            base.update(tk="parr", t=r.choice(["int32", "int64", "string", "uuid", "int8"]))
            if flex_lo is not None and r.random() < 0.2 and max(flex_lo, v0) <= v1:
                base["tagged"] = [max(flex_lo, v0), OPEN]
            return base
        self.n += 1
        sname = (name + "Data" if r.random() < 0.5 else "S" + name) + str(self.n)
        if c < 0.88:            # array of inline structs
            base.update(tk="sarr", t=sname, fields=self.struct_fields(v0, v1, flex_lo, depth))
            if r.random() < 0.3:
                base["nullable"] = [r.randint(v0, v1), OPEN]
            if flex_lo is not None and r.random() < 0.15 and max(flex_lo, v0) <= v1:
                base["tagged"] = [max(flex_lo, v0), OPEN]
            return base
        # inline struct
        tagged_defaults = flex_lo is not None and r.random() < 0.3 and max(flex_lo, v0) <= v1
        base.update(tk="struct", t=sname,
                    fields=self.struct_fields(v0, v1, flex_lo, depth, all_defaults=tagged_defaults))
        if tagged_defaults:
            base["tagged"] = [max(flex_lo, v0), OPEN]
        elif flex_lo is not None and r.random() < 0.3 and max(flex_lo, v0) <= v1:
            # KIP-893 nullable struct (flexible versions only), default null
            base["nullable"] = [max(flex_lo, v0), OPEN]
            base["versions"] = [max(flex_lo, v0), base["versions"][1]]
            for g in base["fields"]:
                if g["versions"] and g["versions"][0] < base["versions"][0]:
                    g["versions"] = [base["versions"][0], g["versions"][1]]
            if r.random() < 0.5:
                base["hasdefault"], base["spelling"] = True, "null"
        return base

    def definition(self, did: str, name: str, kind: str, api_key: int, lo: int, hi: int) -> dict:
        r = self.r
        flex = r.choice([None, lo, min(hi, lo + 1), min(hi, lo + 2), hi + 1])
        flex_lo = None if flex is None or flex > hi else flex
        used: set = set()
        fields = [self.any_field(used, lo, hi, flex_lo, 0) for _ in range(r.choice([1, 2, 3, 4]))]
        # tags must be unique and dense-ish per structure
        self._assign_tags(fields)
        # make sure every version has at least one field
        anchor = {"name": self.fname(used), "t": "int32", "tk": "prim", "versions": [lo, OPEN], "nullable": NONE,
                  "tagged": NONE, "tag": -1, "hasdefault": False, "default": NULL, "spelling": None,
                  "ignorable": False, "etype": "", "fields": []}
        fields.insert(r.randrange(len(fields) + 1), anchor)
        d = {"id": did, "kind": kind, "name": name, "apiKey": api_key, "valid": [lo, hi],
             "flex": [flex, OPEN] if flex is not None else NONE, "fields": fields, "common": []}
        if r.random() < 0.6:
            # upstream definitions of one API (request and response) declare common structs of the
            # same name; many definitions here do too, some of them use it
            cused: set = set()
            d["common"].append({"name": "SharedThing", "versions": [lo, OPEN],
                                "fields": [self.prim_field(cused, lo, hi, None) for _ in range(r.choice([1, 2]))]})
            for g in d["common"][0]["fields"]:
                g["versions"] = [lo, OPEN]
                g["tagged"], g["tag"] = NONE, -1
                if g["hasdefault"] and "null" in g["default"]:
                    g["nullable"] = [lo, OPEN]
            if r.random() < 0.5:
                fields.append({"name": self.fname(used), "t": "SharedThing", "tk": "csarr", "versions": [lo, OPEN],
                               "nullable": NONE, "tagged": NONE, "tag": -1, "hasdefault": False, "default": NULL,
                               "spelling": None, "ignorable": False, "etype": "", "fields": []})
        return d

    def _assign_tags(self, fields: list[dict]) -> None:
        t = 0
        for f in fields:
            if f["tagged"] != NONE:
                f["tag"] = t
                t += self.r.choice([1, 1, 2])
            if f["fields"]:
                self._assign_tags(f["fields"])


# ---------------------------------------------------------------- renderings
def to_abstract(d: dict) -> dict:
    def fld(f: dict) -> dict:
        versions = f["versions"] if f["versions"] is not None else f["tagged"]
        return {"name": f["name"], "name_cp": cps(f["name"]), "tk": f["tk"], "t": f["t"], "versions": versions,
                "nullable": f["nullable"], "tagged": f["tagged"], "tag": f["tag"],
                "hasdefault": f["hasdefault"], "default": f["default"], "ignorable": f["ignorable"],
                "fields": [fld(g) for g in f["fields"]]}
    return {"id": d["id"], "kind": d["kind"], "name": d["name"], "name_cp": cps(d["name"]),
            "apiKey": d["apiKey"], "valid": d["valid"], "flex": d["flex"],
            "fields": [fld(f) for f in d["fields"]],
            "common": [{"name": c["name"], "versions": c["versions"], "fields": [fld(g) for g in c["fields"]]}
                       for c in d["common"]]}


def to_upstream_json(d: dict, rng: random.Random) -> str:
    top = d["valid"][1]

    def fld(f: dict) -> dict:
        typ = {"prim": f["t"], "parr": "[]" + f["t"], "struct": f["t"], "sarr": "[]" + f["t"],
               "cstruct": f["t"], "csarr": "[]" + f["t"]}[f["tk"]]
        out = {"name": f["name"], "type": typ}
        if f["versions"] is not None:
            out["versions"] = spell_range(f["versions"], rng, top)
        if f["nullable"] != NONE:
            out["nullableVersions"] = spell_range(f["nullable"], rng, top)
        if f["tagged"] != NONE:
            out["taggedVersions"] = spell_range(f["tagged"], rng, top)
            out["tag"] = f["tag"]
        if f["hasdefault"]:
            out["default"] = f["spelling"]
        if f["ignorable"]:
            out["ignorable"] = True
        if f["etype"]:
            out["entityType"] = f["etype"]
        out["about"] = rng.choice(["A field.", 'It says "hi".', "Line with 'quotes' and more", ""])
        if not out["about"]:
            del out["about"]
        if f["fields"]:
            out["fields"] = [fld(g) for g in f["fields"]]
        return out
    doc = {"type": d["kind"], "name": d["name"],
           "validVersions": f"{d['valid'][0]}-{d['valid'][1]}" if d["valid"][0] != d["valid"][1] else str(d["valid"][0]),
           "flexibleVersions": spell_range(d["flex"], rng, top), "fields": [fld(f) for f in d["fields"]]}
    if d["kind"] in ("request", "response"):
        doc = {"apiKey": d["apiKey"], **doc}
    if d["common"]:
        doc["commonStructs"] = [{"name": c["name"], "versions": spell_range(c["versions"], rng, top),
                                 "fields": [fld(g) for g in c["fields"]]} for c in d["common"]]
    text = json.dumps(doc, indent=2)
    header = "// Licensed to the Apache Software Foundation (ASF) under one or more\n// contributor license agreements.\n\n"
    lines = text.split("\n")
    if rng.random() < 0.5:
        lines.insert(rng.randrange(1, len(lines)), "  // a comment line inside the document")
    return header + "\n".join(lines) + "\n"


REQUEST_HEADER = {
    "id": "hdr_req", "kind": "header", "name": "RequestHeader", "apiKey": -1, "valid": [0, 2], "flex": [2, OPEN],
    "common": [], "fields": [
        {"name": "RequestApiKey", "t": "int16", "tk": "prim"}, {"name": "RequestApiVersion", "t": "int16", "tk": "prim"},
        {"name": "CorrelationId", "t": "int32", "tk": "prim"},
        {"name": "ClientId", "t": "string", "tk": "prim", "versions": [1, OPEN], "nullable": [1, OPEN], "ignorable": True}]}
RESPONSE_HEADER = {
    "id": "hdr_resp", "kind": "header", "name": "ResponseHeader", "apiKey": -1, "valid": [0, 1], "flex": [1, OPEN],
    "common": [], "fields": [{"name": "CorrelationId", "t": "int32", "tk": "prim"}]}


def _complete(f: dict) -> dict:
    base = {"versions": [0, OPEN], "nullable": NONE, "tagged": NONE, "tag": -1, "hasdefault": False,
            "default": NULL, "spelling": None, "ignorable": False, "etype": "", "fields": []}
    base.update(f)
    return base


def fixed_definitions() -> list[dict]:
    out = []
    for h in (REQUEST_HEADER, RESPONSE_HEADER):
        d = dict(h)
        d["fields"] = [_complete(f) for f in h["fields"]]
        out.append(d)
    return out


def batch(seed: int, n: int) -> list[dict]:
    """n generated definitions plus the two headers and a Metadata pair (generate_index smoke-tests it)."""
    g = DefGen(seed)
    r = g.r
    defs = fixed_definitions()
    defs.append(g.definition("meta_req", "MetadataRequest", "request", 3, 0, 12))
    defs.append(g.definition("meta_resp", "MetadataResponse", "response", 3, 0, 12))
    defs += matrix_definitions()
    keys = [7, 18] + list(range(100, 100 + n))
    keys = [60, 61] + keys[2:]            # 7 and 18 are used by the matrix definitions
    for i in range(n):
        kind = r.choice(["request", "response", "request", "response", "data", "header"])
        lo = r.choice([0, 0, 0, 1])
        hi = lo + r.choice([0, 1, 2, 3, 4])
        stem = "Gen" + "".join(r.choice(WORDS) for _ in range(r.choice([1, 2]))) + str(i)
        if kind in ("request", "response"):
            name = stem + kind.capitalize()
            key = keys[i % len(keys)] if i < 2 else 100 + i
            if i < 2:
                lo = 0                     # the special header rules: key 7 version 0, key 18
        else:
            name, key = stem, -1
        defs.append(g.definition(f"g{i}", name, kind, key, lo, hi))
    return defs


def matrix_definitions() -> list[dict]:
    """Deterministic coverage of every primitive type in every role the generator distinguishes:
    plain, explicit default, nullable (where Kafka allows), tagged with explicit default, tagged
    ignorable without default, as array item (plain / tagged / nullable array)."""
    out = []
    defaults = {"bool": ({"int": 1}, "true"), "int8": (aint(7), "7"), "int16": (aint(-1), "-1"),
                "int32": (aint(255), "0xff"), "int64": (aint(5), "5"), "uint16": (aint(65535), "0xFFFF"),
                "uint32": (aint(9), "9"), "uint64": (aint(0), "0"), "float64": (afloat(0.5), "0.5"),
                "string": ({"blob": list(b"abc")}, "abc"), "bytes": None, "uuid": None, "records": None}
    for i, t in enumerate(["bool", "int8", "int16", "int32", "int64", "uint16", "uint32", "uint64", "float64",
                           "string", "bytes", "uuid", "records"]):
        fs = [_complete({"name": "Plain" + t.capitalize(), "t": t, "tk": "prim"})]
        d = defaults[t]
        if d:
            fs.append(_complete({"name": "Dflt" + t.capitalize(), "t": t, "tk": "prim", "hasdefault": True,
                                 "default": d[0], "spelling": d[1]}))
        if t in ("string", "bytes", "records"):
            fs.append(_complete({"name": "Nul" + t.capitalize(), "t": t, "tk": "prim", "versions": [1, OPEN],
                                 "nullable": [1, OPEN]}))
            if t != "records":
                fs.append(_complete({"name": "NulDflt" + t.capitalize(), "t": t, "tk": "prim", "nullable": [0, OPEN],
                                     "hasdefault": True, "default": NULL, "spelling": "null"}))
        if t != "records":
            tag = 0
            if d:
                fs.append(_complete({"name": "Tag" + t.capitalize(), "t": t, "tk": "prim", "tagged": [1, OPEN],
                                     "tag": tag, "hasdefault": True, "default": d[0], "spelling": d[1]}))
                tag += 1
                # ignorable AND an explicit default: the explicit default is the one to use
                fs.append(_complete({"name": "TagIgnDflt" + t.capitalize(), "t": t, "tk": "prim", "tagged": [1, OPEN],
                                     "tag": tag, "hasdefault": True, "default": d[0], "spelling": d[1],
                                     "ignorable": True}))
                tag += 1
            fs.append(_complete({"name": "TagIgn" + t.capitalize(), "t": t, "tk": "prim", "versions": None,
                                 "tagged": [1, OPEN], "tag": tag, "ignorable": True}))
            tag += 1
            # tagged only from a later version than the one the field appears in (a plain field before)
            fs.append(_complete({"name": "TagLate" + t.capitalize(), "t": t, "tk": "prim", "versions": [0, OPEN],
                                 "tagged": [2, OPEN], "tag": tag, "ignorable": True}))
            tag += 1
            if t in ("string", "bytes"):
                fs.append(_complete({"name": "TagNul" + t.capitalize(), "t": t, "tk": "prim", "tagged": [1, OPEN],
                                     "tag": tag, "nullable": [0, OPEN], "hasdefault": True, "default": NULL,
                                     "spelling": "null"}))
                tag += 1
            if t not in ("bool", "float64"):
                fs.append(_complete({"name": "Arr" + t.capitalize(), "t": t, "tk": "parr", "versions": [0, 1]}))
                fs.append(_complete({"name": "TagArr" + t.capitalize(), "t": t, "tk": "parr", "tagged": [2, OPEN],
                                     "versions": [2, OPEN], "tag": tag}))
                fs.append(_complete({"name": "NulArr" + t.capitalize(), "t": t, "tk": "parr", "nullable": [1, OPEN]}))
        kind = ["request", "response", "data", "header"][i % 4]
        name = f"Matrix{t.capitalize()}" + ("Request" if kind == "request" else "Response" if kind == "response" else "")
        out.append({"id": f"mx{i}", "kind": kind, "name": name, "apiKey": [0, 1, 2, 4, 5, 6, 8, 9, 10, 11, 12, 13, 14][i] if kind in ("request", "response") else -1,
                    "valid": [0, 2], "flex": [1, OPEN], "fields": fs, "common": []})
    # special names in every role
    fs = [_complete({"name": "ThrottleTimeMs", "t": "int32", "tk": "prim"}),
          _complete({"name": "SessionLifetimeMs", "t": "int64", "tk": "prim", "hasdefault": True, "default": aint(0), "spelling": "0"}),
          _complete({"name": "LogAppendTimeMs", "t": "int64", "tk": "prim", "hasdefault": True, "default": aint(-1), "spelling": "-1"}),
          _complete({"name": "MaxTimestampMs", "t": "int64", "tk": "prim"}),
          _complete({"name": "ErrorCode", "t": "int16", "tk": "prim"}),
          _complete({"name": "PartitionErrorCode", "t": "int16", "tk": "prim", "tagged": [1, OPEN], "tag": 0, "ignorable": True,
                     "versions": [1, OPEN]}),
          _complete({"name": "TimeoutMs", "t": "int32", "tk": "prim", "tagged": [1, OPEN], "tag": 1, "hasdefault": True,
                     "default": aint(30000), "spelling": "30000"}),
          # near misses of the special names: plain fields
          _complete({"name": "ErrorCodeCount", "t": "int8", "tk": "prim"}),
          _complete({"name": "VendorErrorCode", "t": "int16", "tk": "prim"}),
          _complete({"name": "ErrorCodes", "t": "int16", "tk": "parr"}),
          _complete({"name": "PartitionErrorCodeTotal", "t": "int32", "tk": "prim"}),
          _complete({"name": "ThrottleTimeMsTotal", "t": "int32", "tk": "prim"}),
          _complete({"name": "LogAppendTimeMsSum", "t": "int64", "tk": "prim"}),
          _complete({"name": "Emoji", "t": "string", "tk": "prim", "hasdefault": True,
                     "default": {"blob": list("a\U0001F600\u00e9\"q'\\z".encode())}, "spelling": "a\U0001F600\u00e9\"q'\\z"}),
          # integer defaults that a double cannot hold; the largest ones in hexadecimal
          _complete({"name": "BigDefault", "t": "int64", "tk": "prim", "hasdefault": True,
                     "default": aint(9007199254740993), "spelling": "9007199254740993"}),
          _complete({"name": "BigNegDefault", "t": "int64", "tk": "prim", "hasdefault": True,
                     "default": aint(-9007199254740993), "spelling": "-9007199254740993"}),
          _complete({"name": "MaxDefault", "t": "int64", "tk": "prim", "hasdefault": True,
                     "default": aint(2**63 - 1), "spelling": "0x7fffffffffffffff"}),
          _complete({"name": "BrokerId", "t": "int32", "tk": "prim", "etype": "brokerId", "hasdefault": True,
                     "default": aint(-1), "spelling": "-1"}),
          _complete({"name": "Topics", "t": "string", "tk": "parr", "etype": "topicName"})]
    out.append({"id": "mxs", "kind": "response", "name": "MatrixSpecialResponse", "apiKey": 18, "valid": [0, 3],
                "flex": [1, OPEN], "fields": fs, "common": []})
    # structures: inline, array, nullable, tagged, common structs used twice
    inner = lambda n: [_complete({"name": n + "Id", "t": "int32", "tk": "prim", "hasdefault": True, "default": aint(-1), "spelling": "-1"}),
                       _complete({"name": n + "Epoch", "t": "int64", "tk": "prim", "hasdefault": True, "default": aint(-1), "spelling": "-1"}),
                       _complete({"name": n + "Label", "t": "string", "tk": "prim", "hasdefault": True, "default": {"blob": []}, "spelling": ""})]
    plain = lambda n: [_complete({"name": n + "Name", "t": "string", "tk": "prim"}),
                       _complete({"name": n + "Ids", "t": "int32", "tk": "parr", "versions": [1, OPEN]})]
    common = [{"name": "SharedThing", "versions": [0, OPEN], "fields": plain("Shared")}]
    fs = [_complete({"name": "Inline", "t": "InlineData", "tk": "struct", "fields": plain("Inline")}),
          _complete({"name": "Items", "t": "Item", "tk": "sarr", "fields": plain("Item"), "nullable": [1, OPEN]}),
          _complete({"name": "State", "t": "StateData", "tk": "struct", "fields": inner("State"), "tagged": [1, OPEN],
                     "tag": 0, "versions": [1, OPEN]}),
          _complete({"name": "Cursor", "t": "CursorData", "tk": "struct", "fields": plain("Cursor"), "versions": [1, OPEN],
                     "nullable": [1, OPEN], "hasdefault": True, "spelling": "null"}),
          _complete({"name": "TagItems", "t": "TagItem", "tk": "sarr", "fields": inner("TagItem"), "tagged": [2, OPEN],
                     "tag": 1, "versions": [2, OPEN]}),
          # nullable only in a bounded range of versions
          _complete({"name": "SometimesNullItems", "t": "SnItem", "tk": "sarr", "fields": plain("SnItem"), "nullable": [1, 1]}),
          _complete({"name": "SometimesNullName", "t": "string", "tk": "prim", "nullable": [0, 1]}),
          _complete({"name": "TagNulItems", "t": "TagNulItem", "tk": "sarr", "fields": inner("TagNulItem"),
                     "tagged": [2, OPEN], "tag": 2, "versions": [2, OPEN], "nullable": [2, OPEN]}),
          _complete({"name": "FirstShared", "t": "SharedThing", "tk": "csarr"}),
          _complete({"name": "SecondShared", "t": "SharedThing", "tk": "csarr", "versions": [1, OPEN]})]
    out.append({"id": "mxt", "kind": "request", "name": "MatrixStructRequest", "apiKey": 7, "valid": [0, 2],
                "flex": [1, OPEN], "fields": fs, "common": common})
    # a second definition declaring a common struct of the SAME name (as a request and its response do)
    common2 = [{"name": "SharedThing", "versions": [0, OPEN], "fields": plain("Other")}]
    fs2 = [_complete({"name": "Things", "t": "SharedThing", "tk": "csarr"}),
           _complete({"name": "MoreThings", "t": "SharedThing", "tk": "csarr", "versions": [1, OPEN], "nullable": [1, OPEN]})]
    out.append({"id": "mxu", "kind": "response", "name": "MatrixStructResponse", "apiKey": 7, "valid": [0, 11],
                "flex": [10, OPEN], "fields": fs2 + [_complete({"name": "LateField", "t": "int16", "tk": "prim",
                                                                 "versions": [3, 10]})], "common": common2})
    # "Request" / "Response" as inner words of a message name (package and module names derive from it)
    simple = [_complete({"name": "Value", "t": "int32", "tk": "prim"})]
    out.append({"id": "mxn1", "kind": "request", "name": "ForwardRequestStatusRequest", "apiKey": 15, "valid": [0, 1],
                "flex": [1, OPEN], "fields": simple, "common": []})
    out.append({"id": "mxn2", "kind": "response", "name": "ForwardRequestStatusResponse", "apiKey": 15, "valid": [0, 1],
                "flex": [1, OPEN], "fields": simple, "common": []})
    out.append({"id": "mxn3", "kind": "request", "name": "ForwardStatusRequest", "apiKey": 16, "valid": [0, 0],
                "flex": NONE, "fields": simple, "common": []})
    out.append({"id": "mxn4", "kind": "response", "name": "ResponseCodeLookupResponse", "apiKey": 17, "valid": [0, 0],
                "flex": NONE, "fields": simple, "common": []})
    return out


def python_builtins() -> list[list[int]]:
    return [cps(n) for n in dir(_builtins)]
