"""Run TLC (java started directly so heap and GC threads are ours to set), shard trace files
over JVMs, parse verdict lines and TLC's own statistics."""
from __future__ import annotations

import concurrent.futures
import json
import os
import re
import shutil
import subprocess
import tempfile
import time

from . import kioenv

SPEC_DIR = os.path.join(kioenv.VERIF, "spec")
CLASSPATH = "/opt/veriftools/tla/tla2tools.jar:/opt/veriftools/tla/CommunityModules-deps.jar"


class MachineryError(Exception):
    """TLC did not run to completion, or verdicts are missing: never a pass, never a violation."""


def scratch_dir(prefix: str = "kioverif-") -> str:
    return tempfile.mkdtemp(prefix=prefix)


def run_tlc(module: str, *a, **kw) -> dict:
    """run_tlc_once, retried once when the JVM died without TLC reporting anything (e.g. it was
    killed under memory pressure) - a spec error or invariant violation is never retried."""
    res = run_tlc_once(module, *a, **kw)
    if res["rc"] != 0 and "Error:" not in res["out"] and "is violated" not in res["out"]:
        time.sleep(2)
        res = run_tlc_once(module, *a, **kw)
    return res


def run_tlc_once(module: str, cfg: str | None = None, env: dict | None = None, workers: int = 1,
            timeout: int = 3600, xmx: str = "3g", extra: list[str] | None = None,
            spec_dir: str = SPEC_DIR, simulate: str | None = None, deque: bool = False) -> dict:
    """Run TLC on spec_dir/module.tla.  Returns dict(rc, out, states, distinct, depth, wall)."""
    meta = scratch_dir("kioverif-tlc-")
    cmd = ["java", "-XX:+UseParallelGC", "-XX:ParallelGCThreads=2", f"-Xmx{xmx}", "-Xss64m"]
    if deque:
        cmd.append("-Dtlc2.tool.queue.IStateQueue=StateDeque")
    cmd += ["-cp", CLASSPATH, "tlc2.TLC", "-workers", str(workers), "-metadir", meta,
            "-noGenerateSpecTE", "-config", cfg or (module + ".cfg")]
    if simulate:
        cmd += ["-simulate", simulate]
    if extra:
        cmd += extra
    cmd.append(module)
    e = dict(os.environ)
    e.pop("JAVA_TOOL_OPTIONS", None)
    if env:
        e.update(env)
    t0 = time.time()
    try:
        p = subprocess.run(cmd, cwd=spec_dir, env=e, capture_output=True, text=True,
                           timeout=timeout)
        rc, out = p.returncode, p.stdout + p.stderr
    except subprocess.TimeoutExpired as ex:
        rc, out = -9, (ex.stdout or b"").decode(errors="replace") + "\nTIMEOUT"
    finally:
        shutil.rmtree(meta, ignore_errors=True)
    res = {"rc": rc, "out": out, "wall": time.time() - t0, "cmd": " ".join(cmd)}
    m = re.search(r"(\d+) states generated, (\d+) distinct states found", out)
    res["states"] = int(m.group(2)) if m else 0
    res["generated"] = int(m.group(1)) if m else 0
    m = re.search(r"depth of the complete state graph search is (\d+)", out)
    res["depth"] = int(m.group(1)) if m else 0
    return res


_VERDICT = re.compile(r'^"([\{\[].*[\}\]])"\s*$')


def parse_json_lines(out: str) -> list[dict]:
    """Lines printed with PrintT(ToJson(..)): a TLA+ string literal holding a JSON object."""
    res = []
    for line in out.splitlines():
        m = _VERDICT.match(line.strip())
        if m:
            s = m.group(1).replace('\\"', '"').replace("\\\\", "\\")
            try:
                res.append(json.loads(s))
            except json.JSONDecodeError:
                raise MachineryError(f"unparseable verdict line: {line[:200]}")
    return res


def tlc_ok(res: dict) -> bool:
    return res["rc"] == 0 and "Model checking completed. No error has been found." in res["out"]


def validate_shards(module: str, shard_files: list[str], envvar: str = "KIO_TRACE_FILE",
                    jobs: int = 16, timeout: int = 3600, cfg: str | None = None) -> dict:
    """One JVM (-workers 1, deterministic single behaviour) per shard file, `jobs` at a time.
    Returns dict(verdicts=[...], states, transitions, wall, runs)."""
    t0 = time.time()

    def one(path):
        return run_tlc(module, cfg=cfg, env={envvar: path}, workers=1, timeout=timeout)

    verdicts, states, gen = [], 0, 0
    with concurrent.futures.ThreadPoolExecutor(max_workers=jobs) as ex:
        results = list(ex.map(one, shard_files))
    for path, res in zip(shard_files, results):
        if not tlc_ok(res):
            raise MachineryError(
                f"TLC failed on {os.path.basename(path)} (rc={res['rc']}):\n{res['out'][-3000:]}")
        verdicts.extend(parse_json_lines(res["out"]))
        states += res["states"]
        gen += res["generated"]
    return {"verdicts": verdicts, "states": states, "transitions": gen,
            "wall": time.time() - t0, "runs": len(shard_files)}


def sany_check(module: str, spec_dir: str = SPEC_DIR) -> tuple[bool, str]:
    p = subprocess.run(["java", "-cp", CLASSPATH, "tla2sany.SANY", module + ".tla"],
                       cwd=spec_dir, capture_output=True, text=True)
    ok = p.returncode == 0 and "Semantic errors" not in p.stdout and "***Parse Error***" not in p.stdout
    return ok, p.stdout + p.stderr
