"""Checks C01, C02 (and helpers shared with C03/C05/C06/C10): kio.serial against
spec/KafkaCodec.tla.

  model checking  : MC_Codec over the bounded shape universe (RoundTrip, Canonical, PrefixFree)
  spec -> code    : the universe's (schema, value, variant, bytes) cases replayed on synthetic
                    dataclasses through kio's writers/readers
  code -> spec    : write/read-call traces of all 1629 shipped classes validated by
                    CodecTrace.tla
"""
from __future__ import annotations

import copy
import json
import concurrent.futures
import os
import random

from . import codec_driver, kioenv, project, synth, tlc
from .checklib import Check, Machinery
from .streams import RecSink, RecSource

C02_CLAUSES = {"write_diverges_from_wire_format", "encoder_raised", "encoder_output_incomplete",
               "sink_used_other_than_write", "sink_event_unknown"}
C01_CLAUSES = {"decoder_raised", "inexact_consumption", "decoded_value_differs",
               "decoded_instance_not_equal", "read_past_message_end", "short_read_inside_message",
               "negative_read_size", "source_used_other_than_read", "source_event_unknown",
               "encoder_raised"}
HARNESS_CLAUSES = {"harness_input_mismatch", "harness_value_not_well_typed"}

ASSUMPTIONS = [
    "TLC, the CommunityModules Json/IOUtils overrides and the projection functions in "
    "harness/project.py are trusted",
    "instances are drawn by a seeded boundary sampler; assurance for unsampled instances rests on "
    "the model-checked lemmas over the shape universe plus per-class conformance",
    "Python's str.encode('utf-8'), float.hex, int and timedelta arithmetic are trusted",
]


def pmap(fn, args: list, jobs: int = 16) -> list:
    """Process pool that fails loudly (instead of hanging) when a worker dies."""
    with concurrent.futures.ProcessPoolExecutor(max_workers=min(jobs, len(args))) as ex:
        try:
            return list(ex.map(fn, args))
        except concurrent.futures.process.BrokenProcessPool as e:
            raise Machinery(f"a harness worker process died while running {fn.__name__}: {e}")


def first_diff(schema: dict, a: dict, b: dict, path: str = "") -> tuple[str, str]:
    """(path, ktype) of the first leaf where two abstract struct values differ."""
    if "rec" not in a or "rec" not in b:
        return path or "<top>", "struct"
    for fs, x, y in zip(schema["fields"], a["rec"], b["rec"]):
        if x == y:
            continue
        p = f"{path}.{fs['name']}" if path else fs["name"]
        if fs["kind"] == "struct":
            if fs["arr"] and "seq" in x and "seq" in y and len(x["seq"]) == len(y["seq"]):
                for i, (xi, yi) in enumerate(zip(x["seq"], y["seq"])):
                    if xi != yi:
                        return first_diff(fs["sub"], xi, yi, f"{p}[{i}]")
            if not fs["arr"] and "rec" in x and "rec" in y:
                return first_diff(fs["sub"], x, y, p)
            return p, "struct"
        return p, fs["ktype"] + ("[]" if fs["arr"] else "")
    return path or "<top>", "?"


def case_summary(c: dict) -> dict:
    return {"id": c["id"], "mode": c["mode"], "sid": c["sid"],
            "wire_bytes": sum(e["n"] for e in c["wev"] if e["op"] == "w") or project.blen(c["input"]),
            "write_calls": len(c["wev"]), "read_calls": len(c["rev"]),
            "wout": c["wout"], "rout": c["rout"]}


def corrupt_babs(a: dict) -> None:
    if "raw" in a:
        a["raw"][0] ^= 0x01
    else:
        a["rle"][0][0] ^= 0x01


def make_canary(case: dict, kind: str) -> dict | None:
    """A copy of a passing case with one recorded field corrupted; TLC must reject it."""
    c = copy.deepcopy(case)
    c["id"] = "canary_" + kind
    if kind == "chunk":
        for e in c["wev"]:
            if e["op"] == "w" and e["n"] > 0:
                corrupt_babs(e["d"])
                return c
    elif kind == "readsize":
        for e in c["rev"]:
            if e["op"] == "r":
                e["n"] += 1
                return c
    elif kind == "consumed":
        if c["rev"]:
            c["rev"] = c["rev"] + [{"op": "r", "n": 1, "got": 1}]
            return c
    return None


# --------------------------------------------------------------------------- code -> spec
def validate_wr(chk: Check, per_class: int, props: set[str], jobs: int = 16) -> None:
    classes = project.all_entity_classes()
    n = len(classes)
    K = min(jobs, 16)
    slices = [(i * n // K, (i + 1) * n // K) for i in range(K)]
    args = [(os.path.join(chk.scratch, f"wr{i}.json"), slices[i], per_class, chk.seed + 1)
            for i in range(K)]
    infos = pmap(codec_driver.gen_wr_shard, args)
    # canaries go into shard 0
    with open(infos[0]["path"]) as f:
        shard0 = json.load(f)
    donor = next((c for c in shard0["cases"] if c["wout"] == "ok" and c["rout"] == "ok"
                  and c["wev"] and c["rev"]), None)
    canaries = []
    if donor:
        for kind in ("chunk", "readsize", "consumed"):
            cc = make_canary(donor, kind)
            if cc:
                canaries.append(cc)
        shard0["cases"].extend(canaries)
        codec_driver.write_shard(infos[0]["path"], shard0["schemas"], shard0["cases"])
    res = tlc.validate_shards("CodecTrace", [i["path"] for i in infos], jobs=jobs)
    verdicts = {v["id"]: set(v["fails"]) for v in res["verdicts"]}
    ncases = sum(i["cases"] for i in infos)
    if len(verdicts) != ncases + len(canaries):
        raise Machinery(f"{len(verdicts)} verdicts for {ncases + len(canaries)} cases")
    for cc in canaries:
        if not verdicts.get(cc["id"]):
            raise Machinery(f"canary {cc['id']} was not rejected by CodecTrace: the spec is not bound")
    chk.add_tlc("CodecTrace(wr)", res, traces=ncases)
    chk.notes.append(f"{n} classes x {per_class} sampled instances; {sum(i['skipped'] for i in infos)} "
                     f"instances skipped as not admitted by the library's own value types; "
                     f"{len(canaries)} canaries rejected")
    # collect failures
    wanted = set()
    if "C01" in props:
        wanted |= C01_CLAUSES
    if "C02" in props:
        wanted |= C02_CLAUSES
    bad_ids = {cid for cid, f in verdicts.items() if f and not cid.startswith("canary_")}
    for cid, f in verdicts.items():
        if f & HARNESS_CLAUSES and not cid.startswith("canary_"):
            raise Machinery(f"case {cid}: {sorted(f)}")
    for info in infos:
        with open(info["path"]) as fh:
            shard = json.load(fh)
        for c in shard["cases"]:
            if c["id"].startswith("canary_"):
                continue
            chk.count()
            chk.distinct((c["sid"], json.dumps(c["value"], sort_keys=True)[:2000]))
            if len(chk.cov["samples"]) < 2 and c["wout"] == "ok":
                chk.sample({"case": case_summary(c), "value": c["value"],
                            "first_write_events": c["wev"][:4], "first_read_events": c["rev"][:4]})
            if c["id"] in bad_ids:
                f = verdicts[c["id"]] & wanted
                if not f:
                    continue
                schema = shard["schemas"][c["sid"]]
                where, kt = first_diff(schema, c["value"], c["rval"]) if c["rout"] == "ok" else ("-", "-")
                key = "+".join(sorted(f))[:80] + ":" + kt
                what = (f"{c['sid']} case {c['id']}: {sorted(f)}; first differing field {where} ({kt}); "
                        f"wout={c['wout']} rout={c['rout']} {c.get('werr', '')}")
                chk.violation(key, what, {"kind": "wr", "sid": c["sid"], "value": c["value"]})


def _contexts(chk: Check) -> None:
    """The result for (class, value) is the specified one in every context (after failed calls, under two
    threads in the same cached codec): a compact run of the C19 machinery, see checks_registry."""
    from .checks_registry import history_section
    history_section(chk)


# --------------------------------------------------------------------------- model checking
def model_check_codec(chk: Check, cfg: str, workers: int = 16, timeout: int = 3000) -> None:
    res = tlc.run_tlc("MC_Codec", cfg=cfg, workers=workers, timeout=timeout, xmx="12g")
    if not tlc.tlc_ok(res):
        if "Invariant" in res["out"] and "is violated" in res["out"]:
            raise Machinery("the specification itself violates an invariant of MC_Codec:\n"
                            + res["out"][-2500:])
        raise Machinery(f"MC_Codec/{cfg} failed rc={res['rc']}:\n{res['out'][-2500:]}")
    chk.add_tlc(f"MC_Codec/{cfg}", res)


def model_check_encoder_machine(chk: Check) -> None:
    """The operational encoder (staging buffers, failure at any sink write) refines the definitional
    codec over the shape universe; the two non-vacuity probes must be violated."""
    res = tlc.run_tlc("MC_EncoderMachine", cfg="MC_EncoderMachine.cfg", workers=16, timeout=3 * 3600, xmx="12g",
                      coverage=True)
    if not tlc.tlc_ok(res):
        raise Machinery(f"MC_EncoderMachine failed:\n{res['out'][-2500:]}")
    tlc.require_actions(res, ["StepExpand", "StepWrite", "StepOpenSec", "StepOpenFld", "StepCloseFld", "StepCloseSec",
                              "Finish"], "MC_EncoderMachine")
    chk.add_tlc("MC_EncoderMachine", res)
    for probe in ("NeverStages", "NeverFails"):
        r = tlc.run_tlc("MC_EncoderMachine", cfg=f"MC_EncoderMachine_probe_{probe}.cfg", workers=8, timeout=3000, xmx="8g")
        if f"Invariant {probe} is violated" not in r["out"]:
            raise Machinery(f"non-vacuity probe {probe} was not violated\n{r['out'][-1500:]}")


def model_check_machine(chk: Check, thorough: bool) -> None:
    """TotalDecoder: the operational decoder machine on every byte string up to a bound; the three
    non-vacuity probes must each be violated."""
    cfg = "MC_CodecMachine_thorough.cfg" if thorough else "MC_CodecMachine_quick.cfg"
    # no -coverage here: TLC's coverage instrumentation of the recursive strict decoder in the invariants turns
    # 9 s into more than 15 min (measured); the three probes below are this model's non-vacuity evidence
    res = tlc.run_tlc("MC_CodecMachine", cfg=cfg, workers=16, timeout=4 * 3600, xmx="16g")
    if not tlc.tlc_ok(res):
        raise Machinery(f"MC_CodecMachine/{cfg} failed:\n{res['out'][-2500:]}")
    chk.add_tlc(f"MC_CodecMachine/{cfg}", res)
    for probe in ("NeverReturns", "NeverSkipsUnknownTag", "NeverLenient"):
        r = tlc.run_tlc("MC_CodecMachine", cfg=f"MC_CodecMachine_probe_{probe}.cfg", workers=8, timeout=3000, xmx="8g")
        if f"Invariant {probe} is violated" not in r["out"]:
            raise Machinery(f"non-vacuity probe {probe} was not violated: the machine model never reaches that "
                            f"behaviour\n{r['out'][-1500:]}")


# --------------------------------------------------------------------------- spec -> code
def emit_universe(chk: Check, cfg: str = "MC_Codec_emit.cfg") -> list[dict]:
    res = tlc.run_tlc("MC_Codec", cfg=cfg, workers=1, timeout=3000, xmx="6g")
    if not tlc.tlc_ok(res):
        raise Machinery(f"MC_Codec emit failed rc={res['rc']}:\n{res['out'][-2500:]}")
    cases = tlc.parse_json_lines(res["out"])
    if not cases:
        raise Machinery("MC_Codec emit produced no cases")
    chk.add_tlc(f"MC_Codec/{cfg}", res)
    return cases


def replay_universe(chk: Check, cases: list[dict], props: set[str]) -> None:
    """Replay TLC-generated (schema, value, variant, bytes) into kio on synthetic classes."""
    from kio.serial import entity_reader, entity_writer
    canon: dict[tuple[str, str], bytes] = {}
    prepared = []
    for c in cases:
        s = synth.attach_sids(c["s"])
        cls = synth.make_class(s)
        prepared.append((c, s, cls))
        if c["var"]["expl"] == 0 and not c["var"]["unk"]:
            canon[(s["sid"], json.dumps(c["v"], sort_keys=True))] = bytes(c["b"])
    replayed = 0
    for c, s, cls in prepared:
        want = bytes(c["b"])
        is_canon = c["var"]["expl"] == 0 and not c["var"]["unk"]
        vkey = (s["sid"], json.dumps(c["v"], sort_keys=True))
        fails = []
        try:
            inst = project.build_entity(c["v"], s)
        except Exception as e:  # noqa: BLE001
            raise Machinery(f"cannot build synthetic instance for {s['sid']}: {e!r}")
        if not codec_driver.type_admits(inst, s):
            continue
        replayed += 1
        if is_canon and props & {"C01", "C02"}:
            sink, wexc = codec_driver.encode_recorded(cls, inst)
            got = RecSink.data(sink)
            if wexc is not None:
                fails.append(("C02", "synthetic_encoder_raised", repr(wexc)))
                fails.append(("C01", "synthetic_encoder_raised", repr(wexc)))
            elif got != want:
                fails.append(("C02", "synthetic_bytes_differ", f"kio={got.hex()} spec={want.hex()}"))
            if wexc is None:
                src, result, rexc, consumed = codec_driver.decode_recorded(
                    cls, got, b"\x07", b"\x01\x80\xff", budget=4 * len(got) + 100)
                if rexc is not None:
                    fails.append(("C01", "synthetic_decoder_raised", repr(rexc)))
                elif consumed != len(got):
                    fails.append(("C01", "synthetic_inexact_consumption", f"{consumed} != {len(got)}"))
                elif project.project_entity(result, s) != c["v"] or result != inst:
                    fails.append(("C01", "synthetic_roundtrip_differs", ""))
        if props & {"C03", "C05"}:
            src, result, rexc, consumed = codec_driver.decode_recorded(
                cls, want, b"", b"\xaa\x55", budget=4 * len(want) + 100)
            if rexc is not None:
                fails.append(("C03", "synthetic_conforming_input_rejected", repr(rexc)))
            elif project.project_entity(result, s) != c["v"]:
                fails.append(("C03", "synthetic_decoded_value_differs", ""))
            elif consumed != len(want):
                fails.append(("C03", "synthetic_inexact_consumption", f"{consumed} != {len(want)}"))
            else:
                sink, wexc = codec_driver.encode_recorded(cls, result)
                if wexc is not None:
                    fails.append(("C05", "synthetic_reencode_raised", repr(wexc)))
                elif vkey in canon and RecSink.data(sink) != canon[vkey]:
                    fails.append(("C05", "synthetic_reencode_differs",
                                  f"kio={RecSink.data(sink).hex()} canonical={canon[vkey].hex()}"))
        chk.count()
        chk.distinct(("synth", s["sid"], vkey[1][:500], json.dumps(c["var"])))
        for pid, clause, detail in fails:
            if pid in props:
                shape = "/".join(f"{f['kind']}:{f['ktype']}:{'arr' if f['arr'] else ''}:"
                                 f"{'nul' if f['nul'] else ''}:{'tag' if f['tag'] >= 0 else ''}"
                                 for f in s["fields"])
                chk.violation(f"{clause}:{shape}"[:100],
                              f"synthetic schema {s['name']} flex={s['flex']} [{shape}] "
                              f"value={json.dumps(c['v'])[:300]} var={c['var']}: {clause} {detail[:400]}",
                              {"kind": "synth", "s": c["s"], "v": c["v"], "var": c["var"], "b": c["b"]})
    chk.cov["traces_validated_against_impl"] += replayed
    chk.notes.append(f"{replayed} specification-generated cases replayed on synthetic dataclasses "
                     f"({len(cases) - replayed} skipped: value not admitted by the library's value types)")
    if len(chk.cov["samples"]) < 3 and cases:
        c = cases[len(cases) // 2]
        chk.sample({"spec_generated_case": {"schema": {"name": c["s"]["name"], "flex": c["s"]["flex"],
                    "fields": [{k: f[k] for k in ("name", "kind", "arr", "ktype", "nul", "tag")}
                               for f in c["s"]["fields"]]}, "value": c["v"], "variant": c["var"],
                    "bytes": c["b"]}})


# --------------------------------------------------------------------------- the checks
def _replay_file(chk: Check, path: str, props: set[str]) -> None:
    with open(path) as f:
        rep = json.load(f)
    case = rep["case"]
    if case["kind"] == "synth":
        replay_universe(chk, [{"s": case["s"], "v": case["v"], "var": case["var"], "b": case["b"]}], props)
        return
    if case["kind"] == "wr":
        project.all_entity_classes()
        mod, _, qual = case["sid"].partition(":")
        import importlib
        cls = getattr(importlib.import_module(mod), qual)
        schema = project.project_schema(cls)
        c = codec_driver.wr_case("replay", cls, schema, case["value"], random.Random(0))
        p = os.path.join(chk.scratch, "replay.json")
        codec_driver.write_shard(p, {schema["sid"]: schema}, [c])
        res = tlc.validate_shards("CodecTrace", [p], jobs=1)
        chk.add_tlc("CodecTrace(replay)", res, traces=1)
        f = set(res["verdicts"][0]["fails"])
        chk.count()
        chk.sample({"replayed": case_summary(c), "fails": sorted(f)})
        wanted = (C01_CLAUSES if "C01" in props else set()) | (C02_CLAUSES if "C02" in props else set())
        if f & wanted:
            chk.violation("replay:" + "+".join(sorted(f & wanted))[:80], f"{case['sid']}: {sorted(f)}", case)
        return
    raise Machinery(f"unknown replay kind {case['kind']}")


def check_C01(chk: Check, replay: str | None) -> None:
    chk.assumptions += ASSUMPTIONS
    chk.cov["rule"] = ("cases = (class, sampled canonical instance) for every shipped entity class, plus "
                       "every (schema, value) of the bounded shape universe replayed on synthetic classes; "
                       "distinct = distinct (class, abstract value); all are non-trivial (each is encoded, "
                       "embedded in junk bytes and decoded through instrumented streams)")
    if replay:
        return _replay_file(chk, replay, {"C01"})
    thorough = chk.tier == "thorough"
    model_check_codec(chk, "MC_Codec_thorough.cfg" if thorough else "MC_Codec_quick.cfg")
    replay_universe(chk, emit_universe(chk, "MC_Codec_emit2.cfg" if thorough else "MC_Codec_emit.cfg"), {"C01"})
    _contexts(chk)
    validate_wr(chk, 32 if thorough else 4, {"C01"})


def check_C02(chk: Check, replay: str | None) -> None:
    chk.assumptions += ASSUMPTIONS + [
        "the oracle for 'what Kafka prescribes' is spec/KafkaCodec.tla + KafkaPrim.tla, written from the "
        "protocol guide, KIP-482 and KIP-893 (the Java tester cannot run offline)"]
    chk.cov["rule"] = ("cases = (class, sampled canonical instance) for every shipped entity class, each "
                       "write call checked against the specified encoding, plus the shape universe on "
                       "synthetic classes; distinct = distinct (class, abstract value)")
    if replay:
        return _replay_file(chk, replay, {"C02"})
    thorough = chk.tier == "thorough"
    model_check_codec(chk, "MC_Codec_thorough.cfg" if thorough else "MC_Codec_quick.cfg")
    model_check_encoder_machine(chk)
    replay_universe(chk, emit_universe(chk, "MC_Codec_emit2.cfg" if thorough else "MC_Codec_emit.cfg"), {"C02"})
    _contexts(chk)
    validate_wr(chk, 32 if thorough else 4, {"C02"})


# --------------------------------------------------------------------------- wire-first
C03_CLAUSES = {"decoder_raised", "inexact_consumption", "decoded_value_differs",
               "read_past_message_end", "short_read_inside_message", "negative_read_size",
               "source_used_other_than_read", "source_event_unknown"}
C05_CLAUSES = {"write_diverges_from_wire_format", "encoder_raised", "encoder_output_incomplete",
               "sink_used_other_than_write", "sink_event_unknown"}


def encode_with_spec(chk: Check, in_paths: list[str], jobs: int = 16) -> dict[str, list[dict]]:
    """Pass 1: CodecEncode on every input shard -> {path: [{id, wt, b}]}."""
    import concurrent.futures

    def one(p):
        return tlc.run_tlc("CodecEncode", env={"KIO_TRACE_FILE": p}, workers=1, timeout=3000)

    # input shards above the size a 3 GB heap can deserialize are split (see tlc.split_large)
    parts = [(p, q) for p in in_paths for q in tlc.split_large(p)]
    with concurrent.futures.ThreadPoolExecutor(max_workers=jobs) as ex:
        results = list(ex.map(one, [q for _, q in parts]))
    out = {p: [] for p in in_paths}
    states = gen = 0
    for (p, q), res in zip(parts, results):
        if not tlc.tlc_ok(res):
            raise Machinery(f"CodecEncode failed on {q}:\n{res['out'][-2500:]}")
        out[p].extend(tlc.parse_json_lines(res["out"]))
        states += res["states"]
        gen += res["generated"]
    chk.add_tlc("CodecEncode(pass1)", {"states": states, "generated": gen,
                                       "wall": max(r["wall"] for r in results)})
    return out


def validate_rw(chk: Check, per_class: int, props: set[str], ms_timestamps: bool = True,
                jobs: int = 16) -> None:
    classes = project.all_entity_classes()
    n = len(classes)
    K = 16 if per_class <= 6 else 64      # thorough: smaller shards, the workers run under an address-space limit
    if per_class > 6:
        os.environ["KIO_VERIF_WORKER_GIB"] = "10"
    slices = [(i * n // K, (i + 1) * n // K) for i in range(K)]
    in_args = [(os.path.join(chk.scratch, f"rwin{i}.json"), slices[i], per_class, chk.seed + 3,
                ms_timestamps) for i in range(K)]
    ins = pmap(codec_driver.gen_rw_inputs, in_args)
    encoded = encode_with_spec(chk, [i["path"] for i in ins], jobs)
    for p, encs in encoded.items():
        bad = [e["id"] for e in encs if not e["wt"]]
        if bad:
            raise Machinery(f"sampler produced values outside the wire domain: {bad[:5]}")
    out_args = [(ins[i]["path"], encoded[ins[i]["path"]],
                 os.path.join(chk.scratch, f"rw{i}.json"), chk.seed + 5) for i in range(K)]
    infos = pmap(codec_driver.gen_rw_shard, out_args)
    # canary: corrupt the recorded decoded value of one passing case
    with open(infos[0]["path"]) as f:
        shard0 = json.load(f)
    donor = next((c for c in shard0["cases"] if c["rout"] == "ok" and c["wout"] == "ok"
                  and c["rev"] and c["wev"]), None)
    canaries = []
    if donor:
        for kind in ("chunk", "readsize"):
            cc = make_canary(donor, kind)
            if cc:
                canaries.append(cc)
        cc = copy.deepcopy(donor)
        cc["id"] = "canary_input"
        if project.blen(cc["input"]):
            corrupt_babs(cc["input"])
            canaries.append(cc)
        shard0["cases"].extend(canaries)
        codec_driver.write_shard(infos[0]["path"], shard0["schemas"], shard0["cases"])
    res = tlc.validate_shards("CodecTrace", [i["path"] for i in infos], jobs=jobs)
    verdicts = {v["id"]: set(v["fails"]) for v in res["verdicts"]}
    ncases = sum(i["cases"] for i in infos)
    if len(verdicts) != ncases + len(canaries):
        raise Machinery(f"{len(verdicts)} verdicts for {ncases + len(canaries)} cases")
    for cc in canaries:
        if not verdicts.get(cc["id"]):
            raise Machinery(f"canary {cc['id']} was not rejected by CodecTrace")
    chk.add_tlc("CodecTrace(rw)", res, traces=ncases)
    chk.notes.append(f"{n} classes x {per_class} wire-level values/variants encoded by the specification, "
                     f"decoded and re-encoded by kio; {len(canaries)} canaries rejected")
    wanted = (C03_CLAUSES if "C03" in props else set()) | (C05_CLAUSES if "C05" in props else set())
    for info in infos:
        with open(info["path"]) as fh:
            shard = json.load(fh)
        for c in shard["cases"]:
            if c["id"].startswith("canary_"):
                continue
            f = verdicts[c["id"]]
            if f & HARNESS_CLAUSES:
                raise Machinery(f"case {c['id']}: {sorted(f)}")
            chk.count()
            chk.distinct((c["sid"], json.dumps(c["value"], sort_keys=True)[:2000], json.dumps(c["var"])))
            if len(chk.cov["samples"]) < 2 and c["var"]["unk"]:
                chk.sample({"case": case_summary(c), "variant": c["var"], "value": c["value"],
                            "input": c["input"]})
            f = f & wanted
            if not f:
                continue
            schema = shard["schemas"][c["sid"]]
            where, kt = first_diff(schema, c["value"], c["rval"]) if c["rout"] == "ok" else ("-", "-")
            canon = c["var"]["expl"] == 0 and not c["var"]["unk"]
            key = "+".join(sorted(f))[:80] + ":" + kt + ("" if canon else ":variant")
            what = (f"{c['sid']} case {c['id']} var={json.dumps(c['var'])[:120]}: {sorted(f)}; first differing "
                    f"field {where} ({kt}); rout={c['rout']} {c.get('rerr', '')} wout={c['wout']}")
            chk.violation(key, what, {"kind": "rw", "sid": c["sid"], "value": c["value"], "var": c["var"]})


def check_C03(chk: Check, replay: str | None) -> None:
    chk.assumptions += ASSUMPTIONS
    chk.cov["rule"] = ("cases = (class, wire-level value, variant) with the bytes produced by the "
                       "specification (explicit defaults, unknown tagged fields at every level), decoded by "
                       "kio; distinct = distinct (class, value, variant); all non-trivial")
    if replay:
        raise Machinery("replay: re-run the check; rw cases are regenerated from (sid, value, var)")
    thorough = chk.tier == "thorough"
    model_check_codec(chk, "MC_Codec_thorough.cfg" if thorough else "MC_Codec_quick.cfg")
    replay_universe(chk, emit_universe(chk, "MC_Codec_emit2.cfg" if thorough else "MC_Codec_emit.cfg"), {"C03"})
    _contexts(chk)
    validate_rw(chk, 24 if thorough else 4, {"C03"})


def check_C05(chk: Check, replay: str | None) -> None:
    chk.assumptions += ASSUMPTIONS
    chk.cov["rule"] = ("cases = (class, wire-level value) encoded canonically by the specification, decoded "
                       "and re-encoded by kio; re-encoded bytes must equal the canonical encoding; "
                       "distinct = distinct (class, value, variant)")
    if replay:
        raise Machinery("replay: re-run the check; rw cases are regenerated from (sid, value, var)")
    thorough = chk.tier == "thorough"
    model_check_codec(chk, "MC_Codec_thorough.cfg" if thorough else "MC_Codec_quick.cfg")
    replay_universe(chk, emit_universe(chk, "MC_Codec_emit2.cfg" if thorough else "MC_Codec_emit.cfg"), {"C05"})
    _contexts(chk)
    validate_rw(chk, 24 if thorough else 4, {"C05"})


# --------------------------------------------------------------------------- probes (C06, C10)
def _gen_inputs(chk: Check, per_class: int, seed_off: int, jobs: int = 16, variants: bool = False, edges: int = 0):
    classes = project.all_entity_classes()
    n = len(classes)
    K = 16
    slices = [(i * n // K, (i + 1) * n // K) for i in range(K)]
    in_args = [(os.path.join(chk.scratch, f"pin{i}.json"), slices[i], per_class,
                chk.seed + seed_off, True, variants, edges) for i in range(K)]
    ins = pmap(codec_driver.gen_probe_inputs, in_args)
    encoded = encode_with_spec(chk, [i["path"] for i in ins], jobs)
    return n, ins, encoded


def _validate_probes(chk: Check, infos: list[dict], canary_fn, jobs: int = 16):
    with open(infos[0]["path"]) as f:
        shard0 = json.load(f)
    canaries = canary_fn(shard0["cases"])
    shard0["cases"].extend(canaries)
    codec_driver.write_shard(infos[0]["path"], shard0["schemas"], shard0["cases"])
    res = tlc.validate_shards("ProbeTrace", [i["path"] for i in infos], jobs=jobs)
    verdicts = {v["id"]: v for v in res["verdicts"]}
    ncases = sum(i["cases"] for i in infos)
    if len(verdicts) != ncases + len(canaries):
        raise Machinery(f"{len(verdicts)} verdicts for {ncases + len(canaries)} cases")
    for cc in canaries:
        if not verdicts[cc["id"]]["fails"]:
            raise Machinery(f"canary {cc['id']} was not rejected by ProbeTrace")
    nprobes = sum(i["probes"] for i in infos)
    chk.add_tlc("ProbeTrace", res, traces=nprobes)
    return verdicts, len(canaries)


def check_C06(chk: Check, replay: str | None) -> None:
    chk.assumptions += ASSUMPTIONS + [
        "a source that returns fewer bytes than asked only at end of data (a buffered stream at EOF)"]
    chk.cov["rule"] = ("a case is (class, instance, cut position k): kio decodes the first k bytes of the "
                       "specified encoding; all cuts when the encoding is short, else every cut within 2 "
                       "bytes of a read boundary plus a seeded sample; distinct = distinct (class, value, k); "
                       "every prefix is non-trivial (it is a strict prefix of a valid message)")
    if replay:
        raise Machinery("replay: re-run the check with the same VERIF_SEED")
    thorough = chk.tier == "thorough"
    model_check_codec(chk, "MC_Codec_thorough.cfg" if thorough else "MC_Codec_quick.cfg")
    n, ins, encoded = _gen_inputs(chk, 8 if thorough else 2, 11, variants=True)
    args = [(ins[i]["path"], encoded[ins[i]["path"]], os.path.join(chk.scratch, f"tr{i}.json"),
             chk.seed + 13, 4096 if thorough else 600) for i in range(len(ins))]
    infos = pmap(codec_driver.gen_trunc_shard, args)

    def canaries(cases):
        donor = next(c for c in cases if len(c["probes"]) > 3)
        out = []
        for kind in ("outcome", "consumed"):
            cc = copy.deepcopy(donor)
            cc["id"] = "canary_" + kind
            if kind == "outcome":
                cc["probes"][2]["out"] = "returned"
            else:
                cc["probes"][2]["consumed"] = cc["probes"][2]["k"] + 1
            out.append(cc)
        return out

    verdicts, ncan = _validate_probes(chk, infos, canaries)
    chk.notes.append(f"{n} classes; {sum(i['probes'] for i in infos)} prefixes decoded; {ncan} canaries rejected")
    for info in infos:
        with open(info["path"]) as fh:
            shard = json.load(fh)
        for c in shard["cases"]:
            if c["id"].startswith("canary_"):
                continue
            chk.count(len(c["probes"]))
            for p in c["probes"][:: max(1, len(c["probes"]) // 50)]:
                chk.distinct((c["sid"], c["id"], p["k"]))
            if len(chk.cov["samples"]) < 2:
                chk.sample({"sid": c["sid"], "value": c["value"], "encoding": c["enc"],
                            "probes": c["probes"][:6]})
            f = verdicts[c["id"]]["fails"]
            if not f:
                continue
            if any(x["c"].startswith("harness_") or x["c"].startswith("spec_") for x in f):
                raise Machinery(f"case {c['id']}: {f}")
            for x in f[:3]:
                p = c["probes"][x["p"] - 1]
                chk.violation(f"{x['c']}:{p['exc'] or p['out']}",
                              f"{c['sid']} case {c['id']}: prefix of {p['k']} bytes (of "
                              f"{project.blen(c['enc'])}) -> {p['out']} {p['exc']} consumed={p['consumed']}",
                              {"kind": "trunc", "sid": c["sid"], "value": c["value"], "k": p["k"]})
    chk.cov["distinct_nontrivial"] = chk.cov["evaluations"]


def check_C10(chk: Check, replay: str | None) -> None:
    chk.assumptions += ASSUMPTIONS + [
        "'time proportional to the input size' is checked as a bound on the number of read calls "
        "(reads <= 2*len+2) and a step budget; wall-clock time and memory are not measured"]
    chk.cov["rule"] = ("a case is (class, corrupted input): role-directed single/double overwrites, "
                       "insertions, deletions of a valid encoding (read boundaries of kio's own decode are "
                       "the roles: length prefixes, varint continuation bits, tags, markers), random byte "
                       "strings, and specification-encoded messages whose fixed-width fields hold wire values at "
                       "and beyond the edge of the library's value types (durations, timestamps, error codes, "
                       "non-finite floats); distinct = distinct (class, input bytes)")
    if replay:
        raise Machinery("replay: re-run the check with the same VERIF_SEED")
    thorough = chk.tier == "thorough"
    if thorough:
        model_check_codec(chk, "MC_Codec_thorough.cfg")
    model_check_machine(chk, thorough)
    n, ins, encoded = _gen_inputs(chk, 6 if thorough else 2, 17, edges=9 if thorough else 2)
    args = [(ins[i]["path"], encoded[ins[i]["path"]], os.path.join(chk.scratch, f"mu{i}.json"),
             chk.seed + 19, 80 if thorough else 20, 4) for i in range(len(ins))]
    infos = pmap(codec_driver.gen_mut_shard, args)

    def canaries(cases):
        out = []
        donor = next(c for c in cases if any(p["out"] == "raised" for p in c["probes"]))
        cc = copy.deepcopy(donor)
        cc["id"] = "canary_keyerror"
        p = next(p for p in cc["probes"] if p["out"] == "raised")
        p["mro"], p["serial"] = ["KeyError", "LookupError", "Exception", "BaseException", "object"], False
        out.append(cc)
        cc = copy.deepcopy(donor)
        cc["id"] = "canary_reads"
        cc["probes"][0]["reads"] = 3 * project.blen(cc["probes"][0]["b"]) + 10
        out.append(cc)
        return out

    verdicts, ncan = _validate_probes(chk, infos, canaries)
    outcomes: dict[str, int] = {}
    for info in infos:
        with open(info["path"]) as fh:
            shard = json.load(fh)
        for c in shard["cases"]:
            if c["id"].startswith("canary_"):
                continue
            chk.count(len(c["probes"]))
            for p in c["probes"]:
                chk.distinct((c["sid"], json.dumps(p["b"])))
                key = p["out"] if p["out"] != "raised" else p["mro"][0]
                outcomes[key] = outcomes.get(key, 0) + 1
            if len(chk.cov["samples"]) < 2:
                chk.sample({"sid": c["sid"], "valid_encoding": c["enc"],
                            "probes": [{k: p[k] for k in ("b", "out", "mro", "consumed", "reads")}
                                       for p in c["probes"][:5]]})
            f = verdicts[c["id"]]["fails"]
            if not f:
                continue
            if any(x["c"].startswith("harness_") for x in f):
                raise Machinery(f"case {c['id']}: {f}")
            for x in f[:3]:
                p = c["probes"][x["p"] - 1]
                chk.violation(f"{x['c']}:{(p['mro'] or [p['out']])[0]}",
                              f"{c['sid']} case {c['id']}: input {project.unbabs(p['b']).hex()[:160]} -> "
                              f"{p['out']} {p['exc']} consumed={p['consumed']} reads={p['reads']}",
                              {"kind": "mut", "sid": c["sid"], "input": p["b"]})
    chk.notes.append(f"{n} classes; outcome histogram {outcomes}; {ncan} canaries rejected")
