"""Locate the kio tree under test and put it first on sys.path.

The target is /repo's *working tree* (nothing is cached between runs).  For testing the
machinery against seeded changes without touching /repo, KIO_VERIF_REPO may point at a
scratch worktree instead.
"""
import os
import sys

REPO = os.environ.get("KIO_VERIF_REPO", "/repo")
VERIF = os.path.dirname(os.path.dirname(os.path.abspath(__file__)))
SRC = os.path.join(REPO, "src")


def activate() -> str:
    if SRC not in sys.path[:1]:
        sys.path.insert(0, SRC)
    sys.dont_write_bytecode = True
    return REPO


def child_env() -> dict:
    env = dict(os.environ)
    env["PYTHONPATH"] = SRC + (os.pathsep + env["PYTHONPATH"] if env.get("PYTHONPATH") else "")
    env["PYTHONDONTWRITEBYTECODE"] = "1"
    env.setdefault("PYTHONHASHSEED", "0")
    return env
