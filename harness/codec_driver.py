"""Drive kio's entity writers/readers through instrumented streams and record cases for
spec/CodecTrace.tla (code -> spec direction)."""
from __future__ import annotations

import json
import os
import random
import traceback

from . import kioenv, project
from .absval import Sampler
from .streams import RecSink, RecSource, StepBudgetExceeded

kioenv.activate()

CANON_VAR = {"expl": 0, "unk": []}


def limit_memory(gib: float | None = None) -> None:
    """Workers that run kio on hostile input get an address-space limit, so that an allocation
    proportional to a corrupted length surfaces as MemoryError (an outcome the specification
    judges) instead of taking the machine down."""
    import resource
    if gib is None:
        # the thorough tiers handle shards several times larger: they raise the limit for their workers
        gib = float(os.environ.get("KIO_VERIF_WORKER_GIB", "3.0"))
    lim = int(gib * 2**30)
    try:
        resource.setrlimit(resource.RLIMIT_AS, (lim, lim))
    except (ValueError, OSError):
        pass


def outcome_name(exc: BaseException | None) -> str:
    if exc is None:
        return "ok"
    return "raise:" + ".".join(c.__name__ for c in type(exc).__mro__[:-1][::-1])


def type_admits(inst, schema: dict) -> bool:
    """Only instances the library's own value types admit are in the domain of C01: ask the
    declared phantom type of every timestamp / duration field."""
    import dataclasses
    import typing
    hints = typing.get_type_hints(type(inst))
    for fs in schema["fields"]:
        v = getattr(inst, fs["name"])
        if v is None:
            continue
        if fs["kind"] == "struct":
            items = v if fs["arr"] else (v,)
            if not all(i is None or type_admits(i, fs["sub"]) for i in items):
                return False
        elif fs["ktype"] in ("datetime_i64", "timedelta_i32", "timedelta_i64"):
            t, _ = project._unwrap(hints[fs["name"]])
            items = v if fs["arr"] else (v,)
            for i in items:
                try:
                    if i is not None and not isinstance(i, t):
                        return False
                except Exception:
                    return False
    return True


def coalesce(events: list, limit: int = 3000) -> list:
    """Very long traces (arrays of tens of thousands of elements) are coalesced before validation:
    adjacent write calls are merged (sound: the sink invariant is about the concatenation, chunking is
    free), adjacent exact reads likewise.  Short traces are validated call by call."""
    if len(events) <= limit:
        return events
    out: list = []
    for e in events:
        if out and e["op"] == out[-1]["op"] == "w" and out[-1]["n"] < 60000 and "raw" in out[-1]["d"] and "raw" in e["d"]:
            out[-1] = {"op": "w", "n": out[-1]["n"] + e["n"], "d": {"raw": out[-1]["d"]["raw"] + e["d"]["raw"]}}
        elif (out and e["op"] == out[-1]["op"] == "r" and e["n"] >= 0 and out[-1]["n"] >= 0
              and e["got"] == e["n"] and out[-1]["got"] == out[-1]["n"] and out[-1]["n"] < 60000):
            out[-1] = {"op": "r", "n": out[-1]["n"] + e["n"], "got": out[-1]["got"] + e["got"]}
        else:
            out.append(dict(e))
    return out


def encode_recorded(cls, inst):
    from kio.serial import entity_writer
    sink = RecSink()
    exc = None
    try:
        entity_writer(cls)(sink, inst)
    except StepBudgetExceeded:
        raise
    except BaseException as e:  # noqa: BLE001 - the outcome is data
        exc = e
    return sink, exc


def decode_recorded(cls, data: bytes, pre: bytes = b"", post: bytes = b"",
                    budget: int | None = None):
    from kio.serial import entity_reader
    src = RecSource(pre + data + post, budget=budget)
    if pre:
        src.read(len(pre))
        RecSource.events(src).clear()
        object.__setattr__(src, "_n", 0)
    exc, result = None, None
    try:
        result = entity_reader(cls)(src)
    except StepBudgetExceeded as e:
        exc = e
    except BaseException as e:  # noqa: BLE001
        exc = e
    consumed = RecSource.pos(src) - len(pre)
    return src, result, exc, consumed


def wr_case(cid: str, cls, schema: dict, aval: dict, rng: random.Random) -> dict | None:
    """Mode "wr": encode the instance, decode kio's own output embedded in junk."""
    inst = project.build_entity(aval, schema)
    if not type_admits(inst, schema):
        return None
    sink, wexc = encode_recorded(cls, inst)
    data = RecSink.data(sink)
    pre = bytes(rng.randrange(256) for _ in range(rng.choice([0, 1, 7])))
    post = bytes(rng.randrange(256) for _ in range(rng.choice([0, 1, 3, 40])))
    case = {
        "id": cid, "mode": "wr", "sid": schema["sid"], "value": aval, "var": CANON_VAR,
        "input": {"raw": []}, "wev": coalesce(RecSink.events(sink)), "wout": outcome_name(wexc),
        "rev": [], "rout": "skipped", "rval": project.NULL, "req": False,
    }
    if wexc is None:
        src, result, rexc, consumed = decode_recorded(cls, data, pre, post,
                                                      budget=4 * len(data) + 200)
        case["rev"] = coalesce(RecSource.events(src))
        case["rout"] = outcome_name(rexc)
        if rexc is None:
            case["rval"] = project.project_entity(result, schema)
            try:
                case["req"] = bool(result == inst) and bool(inst == result)
            except Exception:  # noqa: BLE001
                case["req"] = False
    else:
        case["werr"] = "".join(traceback.format_exception_only(type(wexc), wexc))[-300:]
    return case


def rw_case(cid: str, cls, schema: dict, aval: dict, var: dict, data: bytes,
            rng: random.Random) -> dict:
    """Mode "rw": decode bytes the specification produced, then re-encode the result."""
    pre = bytes(rng.randrange(256) for _ in range(rng.choice([0, 2])))
    post = bytes(rng.randrange(256) for _ in range(rng.choice([0, 1, 9])))
    src, result, rexc, consumed = decode_recorded(cls, data, pre, post,
                                                  budget=4 * len(data) + 200)
    case = {
        "id": cid, "mode": "rw", "sid": schema["sid"], "value": aval, "var": var,
        "input": project.babs(data), "wev": [], "wout": "skipped",
        "rev": coalesce(RecSource.events(src)), "rout": outcome_name(rexc),
        "rval": project.NULL, "req": True,
    }
    if rexc is None:
        case["rval"] = project.project_entity(result, schema)
        sink, wexc = encode_recorded(cls, result)
        case["wev"] = coalesce(RecSink.events(sink))
        case["wout"] = outcome_name(wexc)
    else:
        case["rerr"] = "".join(traceback.format_exception_only(type(rexc), rexc))[-300:]
    return case


def write_shard(path: str, schemas: dict, cases: list) -> None:
    with open(path, "w") as f:
        json.dump({"schemas": schemas, "cases": cases}, f, separators=(",", ":"))


# a few classes that carry a bytes / records payload in legacy and compact form, nested and not: one
# instance each with a payload just above 1 MiB (chunked reads and writes have their boundaries there)
HUGE_CLASSES = [("kio.schema.sasl_authenticate.v0.request", "SaslAuthenticateRequest"),
                ("kio.schema.sasl_authenticate.v2.request", "SaslAuthenticateRequest"),
                ("kio.schema.produce.v3.request", "ProduceRequest"),
                ("kio.schema.produce.v9.request", "ProduceRequest")]
HUGE_LENGTHS = [1048577, 1048581]


def huge_instances(seed: int, wire_domain: bool = False):
    import importlib
    for j, (mod, name) in enumerate(HUGE_CLASSES):
        cls = getattr(importlib.import_module(mod), name)
        schema = project.project_schema(cls)
        s = Sampler(seed * 131 + j, profile="big", big_lengths=[HUGE_LENGTHS[(seed + j) % 2]], wire_domain=wire_domain)
        yield j, cls, schema, s.value(schema)


def gen_wr_shard(args) -> dict:
    """Worker: classes[lo:hi] x per_class sampled instances -> one shard file."""
    limit_memory()
    shard_path, class_slice, per_class, seed = args
    classes = project.all_entity_classes()
    classes.sort(key=project.sid_of)
    lo, hi = class_slice
    schemas, cases, skipped = {}, [], 0
    profiles = ["mixed", "min", "max", "big"]
    for ci, cls in enumerate(classes[lo:hi], start=lo):
        schema = project.project_schema(cls)
        schemas[schema["sid"]] = schema
        for k in range(per_class):
            s = Sampler(seed * 1000003 + ci * 101 + k, profile=profiles[k % 4] if k < 8 else "mixed")
            aval = s.value(schema)
            rng = random.Random(seed * 7 + ci * 13 + k)
            c = wr_case(f"c{ci}_{k}", cls, schema, aval, rng)
            if c is None:
                skipped += 1
            else:
                cases.append(c)
    if lo == 0:
        for j, cls, schema, aval in huge_instances(seed):
            schemas[schema["sid"]] = schema
            c = wr_case(f"huge{j}", cls, schema, aval, random.Random(seed + j))
            if c is not None:
                cases.append(c)
    write_shard(shard_path, schemas, cases)
    return {"path": shard_path, "cases": len(cases), "skipped": skipped,
            "classes": hi - lo}


# ------------------------------------------------------------------ wire-first (C03/C05)
UNK_TAGS = [0, 1, 2, 3, 4, 5, 6, 7, 8, 9, 10, 11, 12, 20, 100, 127, 128, 16383, 16384, 2**31 - 1]


def sample_variant(r: random.Random, canonical: bool) -> dict:
    if canonical:
        return dict(CANON_VAR)
    expl = r.choice([0, 1, 1, 2])
    unk = []
    for _ in range(r.choice([0, 1, 1, 2, 3])):
        t = r.choice(UNK_TAGS)
        n = r.choice([0, 1, 3, 3, 17, 130])
        if all(u["tag"] != t for u in unk):
            unk.append({"tag": t, "data": [r.randrange(256) for _ in range(n)]})
    return {"expl": expl, "unk": unk}


def gen_rw_inputs(args) -> dict:
    """Worker: (class, wire-domain value, variant) triples for pass 1 (CodecEncode)."""
    path, class_slice, per_class, seed, ms_timestamps = args
    classes = project.all_entity_classes()
    classes.sort(key=project.sid_of)
    lo, hi = class_slice
    schemas, cases = {}, []
    for ci, cls in enumerate(classes[lo:hi], start=lo):
        schema = project.project_schema(cls)
        schemas[schema["sid"]] = schema
        for k in range(per_class):
            r = random.Random(seed * 31 + ci * 977 + k)
            profile, canonical = [("max", True), ("mixed", False), ("big", True), ("min", False),
                                  ("mixed", True), ("max", False)][k % 6]
            s = Sampler(seed * 1000033 + ci * 103 + k, profile=profile,
                        ms_timestamps=ms_timestamps, wire_domain=True)
            aval = s.value(schema)
            var = sample_variant(r, canonical=canonical or not schema["flex"])
            cases.append({"id": f"r{ci}_{k}", "sid": schema["sid"], "value": aval, "var": var})
    if lo == 0:
        for j, cls, schema, aval in huge_instances(seed, wire_domain=True):
            schemas[schema["sid"]] = schema
            cases.append({"id": f"rhuge{j}", "sid": schema["sid"], "value": aval, "var": dict(CANON_VAR)})
    write_shard(path, schemas, cases)
    return {"path": path, "cases": len(cases)}


def gen_rw_shard(args) -> dict:
    """Worker: feed the specification's bytes to kio, record, write the pass-2 shard."""
    limit_memory()
    in_path, encoded, out_path, seed = args
    project.all_entity_classes()
    with open(in_path) as f:
        data = json.load(f)
    enc = {e["id"]: e for e in encoded}
    cases = []
    import importlib
    for c in data["cases"]:
        e = enc[c["id"]]
        mod, _, qual = c["sid"].partition(":")
        cls = getattr(importlib.import_module(mod), qual)
        schema = project.project_schema(cls)
        rng = random.Random(seed * 17 + len(cases))
        rc = rw_case(c["id"], cls, schema, c["value"], c["var"], project.unbabs(e["b"]), rng)
        rc["wt"] = bool(e["wt"])
        cases.append(rc)
    write_shard(out_path, data["schemas"], cases)
    return {"path": out_path, "cases": len(cases)}


# ------------------------------------------------------------------ outcome probes (C06/C10)
def probe(cls, data: bytes, in_memory: bool = False) -> dict:
    """One complete run of kio's decoder on `data`; observed at its return / raise.  in_memory: through
    io.BytesIO (seekable, tell-able) instead of the read-only recording source."""
    from kio.serial.errors import BufferUnderflow, SerialError
    if in_memory:
        import io
        from kio.serial import entity_reader
        buf = io.BytesIO(data)
        result, exc = None, None
        try:
            result = entity_reader(cls)(buf)
        except BaseException as e:  # noqa: BLE001
            exc = e
        out = {"consumed": min(buf.tell(), len(data)), "reads": 0, "mro": [], "serial": False,
               "result": result, "exc": exc}
    else:
        src, result, exc, consumed = decode_recorded(cls, data, budget=4 * len(data) + 64)
        out = {"consumed": consumed, "reads": RecSource.nreads(src), "mro": [], "serial": False,
               "result": result, "exc": exc}
    if exc is None:
        out["out"] = "returned"
    elif isinstance(exc, StepBudgetExceeded):
        out["out"] = "budget"
    elif isinstance(exc, BufferUnderflow):
        out["out"] = "underflow"
        out["serial"] = True
        out["mro"] = [c.__name__ for c in type(exc).__mro__]
    else:
        out["out"] = "raised"
        out["serial"] = isinstance(exc, SerialError)
        out["mro"] = [c.__name__ for c in type(exc).__mro__]
    return out


def cut_positions(n: int, boundaries: list[int], rng: random.Random, all_below: int) -> list[int]:
    if n <= all_below:
        return list(range(n))
    ks = set()
    for b in boundaries:
        for d in (-2, -1, 0, 1, 2):
            if 0 <= b + d < n:
                ks.add(b + d)
    ks.update(rng.randrange(n) for _ in range(64))
    ks.update([0, 1, n - 1, n - 2])
    return sorted(k for k in ks if 0 <= k < n)


def read_boundaries(cls, data: bytes) -> list[tuple[int, int]]:
    """(offset, size) of every read kio issues when decoding `data` successfully."""
    src, result, exc, consumed = decode_recorded(cls, data, budget=4 * len(data) + 64)
    out, pos = [], 0
    for e in RecSource.events(src):
        if e["op"] == "r":
            out.append((pos, e["got"]))
            pos += e["got"]
    return out


def gen_trunc_shard(args) -> dict:
    limit_memory()
    in_path, encoded, out_path, seed, all_below = args
    project.all_entity_classes()
    with open(in_path) as f:
        data = json.load(f)
    enc = {e["id"]: e for e in encoded}
    import importlib
    cases, nprobes = [], 0
    for c in data["cases"]:
        raw = project.unbabs(enc[c["id"]]["b"])
        mod, _, qual = c["sid"].partition(":")
        cls = getattr(importlib.import_module(mod), qual)
        rng = random.Random(seed * 131 + len(cases))
        bounds = [o for o, _ in read_boundaries(cls, raw)]
        probes = []
        for j, k in enumerate(cut_positions(len(raw), bounds, rng, all_below)):
            # every cut through the read-only source; every third one through an in-memory buffer too
            for mem in ((False, True) if j % 3 == 0 else (False,)):
                p = probe(cls, raw[:k], in_memory=mem)
                probes.append({"k": k, "out": p["out"], "consumed": p["consumed"], "reads": p["reads"],
                               "exc": "" if p["exc"] is None else type(p["exc"]).__name__, "mem": mem})
        nprobes += len(probes)
        cases.append({"id": c["id"], "mode": "trunc", "sid": c["sid"], "value": c["value"], "var": c["var"],
                      "enc": project.babs(raw), "probes": probes})
    write_shard(out_path, data["schemas"], cases)
    return {"path": out_path, "cases": len(cases), "probes": nprobes}


INTERESTING = [0x00, 0x01, 0x02, 0x7F, 0x80, 0xFF]


def mutations(raw: bytes, reads: list[tuple[int, int]], rng: random.Random, count: int) -> list[bytes]:
    """Role-directed corruptions of a valid encoding: the read boundaries are the roles
    (1-byte reads: varint bytes, markers, booleans; 2/4-byte reads: length prefixes and
    integers; long reads: payloads)."""
    out = []
    n = len(raw)

    def put(pos, bs):
        b = bytearray(raw)
        b[pos:pos + len(bs)] = bs
        return bytes(b)

    heads = [(o, s) for o, s in reads if s > 0] or [(0, 0)]
    for _ in range(count * 3):
        if len(out) >= count:
            break
        o, s = rng.choice(heads)
        kind = rng.randrange(10)
        if n == 0:
            out.append(bytes(rng.randrange(256) for _ in range(rng.randrange(0, 12))))
            continue
        if kind == 0:                                  # overwrite first byte of a role
            out.append(put(o, bytes([rng.choice(INTERESTING)])))
        elif kind == 1 and s in (2, 4, 8):             # whole fixed-width prefix / integer
            out.append(put(o, rng.choice([b"\xff" * s, b"\x7f" + b"\xff" * (s - 1),
                                          b"\x80" + b"\x00" * (s - 1), b"\x00" * s,
                                          b"\xff" * (s - 1) + b"\xfe",
                                          (n + rng.choice([-1, 0, 1])).to_bytes(8, "big")[-s:]])))
        elif kind == 2 and s == 1:                     # flip a continuation bit
            out.append(put(o, bytes([raw[o] ^ 0x80])))
        elif kind == 3 and s == 1:                     # length / count / tag off by one or huge
            out.append(put(o, bytes([(raw[o] + rng.choice([1, -1, 2, 0x40])) & 0xFF])))
        elif kind == 4:                                # insert a byte at a role boundary
            out.append(raw[:o] + bytes([rng.choice(INTERESTING)]) + raw[o:])
        elif kind == 5 and n > 1:                      # delete a byte at a role boundary
            out.append(raw[:o] + raw[o + 1:])
        elif kind == 6:                                # two independent corruptions
            o2, _ = rng.choice(heads)
            b = bytearray(put(o, bytes([rng.choice(INTERESTING)])))
            b[o2] = rng.choice(INTERESTING)
            out.append(bytes(b))
        elif kind == 7:                                # varint run: ff ff ff ff ff (too long)
            out.append(raw[:o] + b"\xff" * rng.choice([4, 5, 6]) + raw[o + 1:])
        elif kind == 8:                                # corrupt + truncate
            b = put(o, bytes([rng.choice(INTERESTING)]))
            out.append(b[: rng.randrange(o, n + 1)])
        else:                                          # random bytes
            out.append(bytes(rng.choice(INTERESTING + [rng.randrange(256)])
                             for _ in range(rng.randrange(0, 24))))
    return out[:count]


def gen_mut_shard(args) -> dict:
    limit_memory()
    in_path, encoded, out_path, seed, per_case, check_every = args
    project.all_entity_classes()
    with open(in_path) as f:
        data = json.load(f)
    enc = {e["id"]: e for e in encoded}
    import importlib
    cases, nprobes = [], 0
    for c in data["cases"]:
        raw = project.unbabs(enc[c["id"]]["b"])
        mod, _, qual = c["sid"].partition(":")
        cls = getattr(importlib.import_module(mod), qual)
        schema = project.project_schema(cls)
        rng = random.Random(seed * 733 + len(cases))
        reads = read_boundaries(cls, raw)
        probes = []
        muts = mutations(raw, reads, rng, per_case)
        if c.get("edge"):
            muts = [raw] + muts[: max(2, per_case // 4)]        # the edge encoding itself, then a few corruptions
        for i, m in enumerate(muts):
            p = probe(cls, m)
            pr = {"b": project.babs(m), "out": p["out"], "mro": p["mro"], "serial": p["serial"],
                  "consumed": p["consumed"], "reads": p["reads"], "rval": project.NULL,
                  "reenc": True, "check": False,
                  "exc": "" if p["exc"] is None else repr(p["exc"])[:200]}
            if p["out"] == "returned":
                pr["rval"] = project.project_entity(p["result"], schema)
                sink, wexc = encode_recorded(cls, p["result"])
                pr["reenc"] = wexc is None
                if wexc is not None:
                    pr["exc"] = "re-encode: " + repr(wexc)[:200]
                pr["check"] = (i % check_every == 0) and len(m) <= 600
            probes.append(pr)
        nprobes += len(probes)
        cases.append({"id": c["id"], "mode": "mut", "sid": c["sid"], "value": c["value"], "var": c["var"],
                      "enc": project.babs(raw), "probes": probes})
    write_shard(out_path, data["schemas"], cases)
    return {"path": out_path, "cases": len(cases), "probes": nprobes}


def gen_probe_inputs(args) -> dict:
    """Worker: (class, value) pairs, canonical variant, for the probe checks' pass 1."""
    path, class_slice, per_class, seed, ms_timestamps = args[:5]
    variants = len(args) > 5 and args[5]
    classes = project.all_entity_classes()
    classes.sort(key=project.sid_of)
    lo, hi = class_slice
    schemas, cases = {}, []
    for ci, cls in enumerate(classes[lo:hi], start=lo):
        schema = project.project_schema(cls)
        schemas[schema["sid"]] = schema
        for k in range(per_class):
            s = Sampler(seed * 1000211 + ci * 107 + k, profile=["max", "mixed", "min"][k % 3],
                        ms_timestamps=ms_timestamps, wire_domain=True)
            var = CANON_VAR
            if variants and schema["flex"] and k % 2 == 1:
                var = sample_variant(random.Random(seed * 13 + ci * 7 + k), canonical=False)
            cases.append({"id": f"p{ci}_{k}", "sid": schema["sid"], "value": s.value(schema, budget=120),
                          "var": var})
        edges = args[6] if len(args) > 6 else 0
        if edges:
            # wire values at the edge of the library's value types: all of them for the rare types,
            # a rotating pair otherwise (thorough: all)
            from .absval import EDGES, RARE_EDGE_TYPES, edge_types
            kts = edge_types(schema)
            if kts:
                full = max(len(EDGES[k]) for k in kts)
                idxs = range(full) if (edges > 2 or kts & set(RARE_EDGE_TYPES)) else [(2 * ci) % full, (2 * ci + 1) % full]
                for j in idxs:
                    s = Sampler(seed * 1000211 + ci * 107 + 50 + j, profile="max", ms_timestamps=ms_timestamps,
                                wire_domain=True, edge=j)
                    cases.append({"id": f"p{ci}_e{j}", "sid": schema["sid"], "value": s.value(schema, budget=60),
                                  "var": CANON_VAR, "edge": True})
    write_shard(path, schemas, cases)
    return {"path": path, "cases": len(cases)}
