"""Seeded boundary sampler of abstract values over an abstract schema.

Draws only *canonical, well-typed* values (the domain of C01/C02; with wire_domain the domain
of C03/C05): integers inside the Kafka type's range, whole-millisecond durations inside the
Python-representable range, millisecond timestamps, non-zero UUIDs, finite floats, valid UTF-8.

Dimensions covered per field: null / non-null (nullable), null / empty / one / many (arrays,
including 126/127/128 elements), default / zero / non-default (tagged, including tagged structs
whose members have non-zero defaults), boundary values of each primitive, string lengths around
the one-, two- and three-byte varint boundaries and the int16 limit, multi-byte UTF-8.

Profiles: "mixed" (random boundary mix), "min" (nulls, empties, defaults, lower limits),
"max" (non-null, many, non-default, upper limits), "big" (one field of the instance gets a
length at a large boundary: 16383/16384/32767/32768/65535/65536...).
"""
from __future__ import annotations

import datetime
import random

from .project import NULL, ablob, afloat, aint

INT_RANGES = {
    "int8": (-(2**7), 2**7 - 1), "int16": (-(2**15), 2**15 - 1),
    "int32": (-(2**31), 2**31 - 1), "int64": (-(2**63), 2**63 - 1),
    "uint8": (0, 2**8 - 1), "uint16": (0, 2**16 - 1),
    "uint32": (0, 2**32 - 1), "uint64": (0, 2**64 - 1),
    "timedelta_i32": (-(2**31), 2**31 - 1),
}
# whole milliseconds that datetime.timedelta can hold (timedelta.min .. timedelta.max - 1 day)
TD64_LO = datetime.timedelta.min // datetime.timedelta(milliseconds=1)
TD64_HI = (datetime.timedelta.max - datetime.timedelta(days=1)) // datetime.timedelta(milliseconds=1)
DT_HI_S = 253402300799           # 9999-12-31T23:59:59Z in seconds

UTF8_SNIPPETS = ["", "a", "kafka", "é", "日本語", "😀", "a\u0000b", "ß∂ƒ", "߿ࠀ￿", "\U0010ffff",
                 "\ufeff", "\ufeffbom-first", "bom-last\ufeff", "\ud7ff\ue000", "e\u0301", " lead", "trail ", "\t\n",
                 "\x7f\x80"]
STRING_LENGTHS = [0, 1, 2, 126, 127, 128, 129]
BIG_LENGTHS_STRING = [16383, 16384, 32766, 32767]      # Kafka caps strings at int16 max in both forms
BIG_LENGTHS = [16382, 16383, 16384, 32767, 32768, 65535, 65536, 70001]
BLOBISH = ("string", "bytes", "records")


def count_blob_fields(schema: dict) -> int:
    n = 0
    for fs in schema["fields"]:
        if fs["kind"] == "struct":
            n += count_blob_fields(fs["sub"])
        elif fs["ktype"] in BLOBISH:
            n += 1
    return n


def implicit_default(fs: dict) -> dict:
    """Kafka's default of a field that declares none (used only to *choose* values to sample;
    the oracle computes its own in the specification)."""
    if fs["hasd"]:
        return fs["dflt"]
    if fs["arr"]:
        return {"seq": []}
    if fs["nul"]:
        return NULL
    if fs["kind"] == "struct":
        return {"rec": [implicit_default(g) for g in fs["sub"]["fields"]]}
    kt = fs["ktype"]
    if kt in ("string", "bytes"):
        return {"blob": []}
    if kt in ("uuid", "records"):
        return NULL
    if kt == "float64":
        return afloat(0.0)
    return {"int": 0}


def zero_value(fs: dict) -> dict:
    """The all-zero value of a field, ignoring declared defaults."""
    if fs["arr"]:
        return {"seq": []}
    if fs["kind"] == "struct":
        return {"rec": [zero_value(g) for g in fs["sub"]["fields"]]}
    kt = fs["ktype"]
    if kt in ("string", "bytes"):
        return {"blob": []}
    if kt in ("uuid", "records"):
        return NULL if (fs["nul"] or kt == "uuid") else {"blob": []}
    if kt == "float64":
        return afloat(0.0)
    return {"int": 0}


# Wire values at and just beyond the edge of what the library's value types can hold: every one is a
# well-formed fixed-width field on the wire, so decoding must either return an entity that can be
# written again or raise a documented error (C10) - never TypeError and friends.
EDGES = {
    "timedelta_i64": [86399999999999999, 86400000000000000, 86399999913600000, 86399999913599999,
                      -86399999913600000, -86399999913600001, 2**63 - 1, -(2**63), 2**53 + 1],
    "datetime_i64": [253402300799999, 253402300800000, 2**63 - 1, -2, -(2**63), 8589934592001, 2**53 + 1],
    "timedelta_i32": [2**31 - 1, -(2**31)],
    "error_code": [127, 128, 129, 200, -1, -2, 32767, -32768],
    "float64": [0x7FF0000000000000, 0xFFF0000000000000, 0x7FF8000000000000, 0x7FF0000000000001,
                0x8000000000000000, 0x0000000000000001],
}
RARE_EDGE_TYPES = ("timedelta_i64", "datetime_i64", "float64")


def edge_types(schema: dict) -> set:
    out = set()
    for f in schema["fields"]:
        if f["kind"] == "struct":
            out |= edge_types(f["sub"])
        elif f["ktype"] in EDGES:
            out.add(f["ktype"])
    return out


_M61 = 2**61 - 1


def hash_neighbour(dflt: dict, fs: dict):
    """A value that is NOT the default but has the default's hash in CPython (hash(-2) == hash(-1);
    integers hash modulo 2**61 - 1): an implementation that compares hashes instead of values elides it."""
    from .project import unaint
    if fs["kind"] == "prim":
        rng_ = INT_RANGES.get(fs["ktype"])
        if rng_ is None or not ("int" in dflt or "bits" in dflt):
            return None
        d = unaint(dflt)
        for cand in ([-2] if d == -1 else []) + [d + _M61, d - _M61]:
            if rng_[0] <= cand <= rng_[1] and cand != d:
                return aint(cand)
        return None
    if "rec" not in dflt:
        return None
    for i, sub in enumerate(fs["sub"]["fields"]):
        if sub["arr"] or sub["tag"] >= 0:
            continue
        n = hash_neighbour(dflt["rec"][i], sub)
        if n is not None:
            return {"rec": dflt["rec"][:i] + [n] + dflt["rec"][i + 1:]}
    return None


class Sampler:
    def __init__(self, seed: int, profile: str = "mixed", ms_timestamps: bool = True,
                 wire_domain: bool = False, edge: int | None = None, big_lengths: list | None = None):
        self.big_lengths = big_lengths      # overrides BIG_LENGTHS for bytes / records payloads of the big profile
        self.edge = edge            # index into EDGES: fields of a narrow-domain type take that edge value
        self.r = random.Random(seed)
        self.profile = profile
        self.ms_timestamps = ms_timestamps     # timestamps with non-zero milliseconds
        self.wire_domain = wire_domain
        self.budget = 0
        self.big_left = 0
        self.big_p = 0.0

    # ----- primitives
    def _int_in(self, lo: int, hi: int) -> int:
        r = self.r
        menu = [m for m in (lo, lo + 1, -1, 0, 1, hi - 1, hi) if lo <= m <= hi]
        c = r.random()
        if self.profile == "min":
            return lo if c < 0.6 else r.choice(menu)
        if self.profile == "max":
            return hi if c < 0.6 else r.choice(menu)
        if c < 0.45:
            return r.choice(menu)
        if c < 0.7:
            k = r.randrange(0, max(1, hi.bit_length()))
            v = r.choice([1, -1]) * ((1 << k) + r.choice([-1, 0, 1]))
            return min(hi, max(lo, v))
        return r.randint(lo, hi)

    def _big_roll(self) -> bool:
        if self.big_left > 0 and self.r.random() < self.big_p:
            self.big_left -= 1
            return True
        return False

    def _filled(self, n: int, text: bool) -> bytes:
        """n bytes with few runs (cheap in run-length notation) but distinctive ends."""
        r = self.r
        if n == 0:
            return b""
        if text:
            head = r.choice(["é", "日", "", "a"]).encode()
            tail = r.choice(["😀", "z", ""]).encode()
            fill = r.choice(b"abkx")
        else:
            head = bytes([r.randrange(256)])
            tail = bytes([r.randrange(256), 0][: r.choice([1, 2])])
            fill = r.choice([0, 0x61, 0x80, 0xFF])
        if len(head) + len(tail) > n:
            return bytes([0x61 if text else fill]) * n
        return head + bytes([fill]) * (n - len(head) - len(tail)) + tail

    def _text(self, legacy: bool) -> bytes:
        r = self.r
        if self._big_roll():
            return self._filled(r.choice(BIG_LENGTHS_STRING), True)
        c = r.random()
        if c < 0.3 and self.profile != "max":
            return r.choice(UTF8_SNIPPETS).encode()
        n = r.choice(STRING_LENGTHS[3:] if self.profile == "max" else STRING_LENGTHS)
        if c < 0.55:
            return bytes(r.choice(b"abcxyz019-_.") for _ in range(n))
        out = b""
        while len(out) < n:
            ch = r.choice(["é", "日", "😀", "k", "ü"]).encode()
            out += ch if len(out) + len(ch) <= n else b"x" * (n - len(out))
        return out

    def _blob(self) -> bytes:
        r = self.r
        if self._big_roll():
            return self._filled(r.choice(self.big_lengths or BIG_LENGTHS), False)
        n = r.choice(STRING_LENGTHS[3:] if self.profile == "max" else STRING_LENGTHS)
        return bytes(r.randrange(256) for _ in range(n))

    def prim(self, kt: str, legacy: bool) -> dict:
        r = self.r
        if self.edge is not None and kt in EDGES:
            e = EDGES[kt][self.edge % len(EDGES[kt])]
            if kt == "float64":
                return {"f64": [e >> 63, (e >> 52) & 2047, [(e >> i) & 1 for i in range(52)]]}
            return aint(e)
        if kt in INT_RANGES:
            return aint(self._int_in(*INT_RANGES[kt]))
        if kt == "timedelta_i64":
            return aint(self._int_in(TD64_LO, TD64_HI))
        if kt == "datetime_i64":
            s = self._int_in(0, DT_HI_S)
            ms = s * 1000
            if self.ms_timestamps and r.random() < 0.6:
                ms += r.choice([1, 123, 500, 999, r.randrange(1000)])
            return aint(ms)
        if kt == "error_code":
            return aint(r.choice([-1, 0, 1, 127, r.randint(-1, 127)]))
        if kt == "bool":
            return {"int": r.choice([0, 1])}
        if kt == "float64":
            c = r.random()
            if self.wire_domain and c < 0.2:
                # the wire domain is every bit pattern: infinities, quiet / signalling NaNs with payloads
                q = r.choice([0x7FF0000000000000, 0xFFF0000000000000, 0x7FF8000000000000, 0x7FF0000000000001,
                              0xFFF8000000000123, 0x7FFFFFFFFFFFFFFF])
                return {"f64": [q >> 63, 2047, [(q >> i) & 1 for i in range(52)]]}
            if c < 0.5:
                return afloat(r.choice([0.0, -0.0, 1.0, -1.5, 5e-324, 1.7976931348623157e308,
                                        -2.2250738585072014e-308, 0.1, 123456.789]))
            return afloat(r.uniform(-1e6, 1e6) * 10 ** r.randint(-300, 300))
        if kt == "string":
            return ablob(self._text(legacy))
        if kt in ("bytes", "records"):
            return ablob(self._blob())
        if kt == "uuid":
            c = r.random()
            if c < 0.2:
                return ablob(bytes([0] * 15 + [1]))
            if c < 0.3:
                return ablob(bytes([255] * 16))
            return ablob(bytes([r.randrange(256) for _ in range(15)] + [r.randrange(1, 256)]))
        raise ValueError(kt)

    # ----- composite
    def _null_roll(self) -> bool:
        p = {"min": 0.85, "max": 0.0, "big": 0.1}.get(self.profile, 0.3)
        return self.r.random() < p

    def item(self, fs: dict, flex: bool, depth: int, nullok: bool) -> dict:
        self.budget -= 1
        if nullok and self._null_roll():
            return NULL
        if fs["kind"] == "struct":
            return self.struct(fs["sub"], depth + 1)
        return self.prim(fs["ktype"], not flex)

    def _array_len(self, fs: dict, depth: int) -> int:
        r = self.r
        if self.budget <= 0:
            return 0
        if fs["kind"] == "prim" and fs["ktype"] not in BLOBISH and depth <= 1 and r.random() < 0.04:
            return r.choice([126, 127, 128])
        if (self.profile == "big" and self.big_left > 0 and fs["kind"] == "prim" and depth == 0
                and fs["ktype"] in ("int8", "int16", "int32", "int64") and r.random() < 0.5):
            self.big_left -= 1          # the instance's one large item is an array beyond the int16 limit
            return r.choice([32767, 32768, 40000])
        n = {"min": r.choice([0, 0, 1]), "max": r.choice([2, 3, 4]),
             "big": r.choice([1, 1, 2])}.get(self.profile, r.choice([0, 1, 1, 2, 2, 3]))
        if depth >= 2:
            n = min(n, 2)
        if depth >= 3:
            n = min(n, 1)
        return n

    def field(self, fs: dict, schema: dict, depth: int) -> dict:
        r = self.r
        flex = schema["flex"]
        client_id = schema["name"] == "RequestHeader" and fs["name"] == "client_id"
        tagged = fs["tag"] >= 0
        dflt = implicit_default(fs) if tagged else None
        if tagged:
            c = r.random()
            p_default = {"min": 1.0, "max": 0.0, "big": 0.5}.get(self.profile, 0.35)
            if c < p_default:
                return dflt
            if fs["kind"] == "struct" and not fs["arr"] and not fs["nul"]:
                z = zero_value(fs)
                if z != dflt and r.random() < (1.0 if self.profile == "max" else 0.3):
                    return z          # all-zero struct where the declared defaults are not zero
            if not fs["arr"] and r.random() < 0.2:
                n = hash_neighbour(dflt, fs)
                if n is not None:
                    return n          # differs from the default, yet hashes like it in CPython
        if fs["arr"]:
            if fs["nul"] and self._null_roll() and not (tagged and "null" not in dflt):
                return NULL
            n = self._array_len(fs, depth)
            return {"seq": [self.item(fs, flex, depth, fs["inul"]) for _ in range(n)]}
        nullok = fs["nul"] or client_id
        if tagged and fs["nul"] and "null" not in dflt:
            nullok = False      # would need an explicit null on the wire: outside kio's writer support
        if fs["kind"] == "prim" and fs["ktype"] == "uuid":
            nullok = True
        v = self.item(fs, False if client_id else flex, depth, nullok)
        if tagged and fs["kind"] == "prim" and fs["ktype"] == "float64" and v == afloat(-0.0):
            # -0.0 == 0.0 for Kafka (Java double comparison) and for kio: a tagged float whose default is
            # zero is elided for either zero, so -0.0 is not a canonical value there
            v = afloat(1.0)
        return v

    def struct(self, schema: dict, depth: int = 0) -> dict:
        return {"rec": [self.field(fs, schema, depth) for fs in schema["fields"]]}

    def value(self, schema: dict, budget: int = 400) -> dict:
        self.budget = budget
        if self.profile == "big":
            n = count_blob_fields(schema)
            self.big_left = 1
            self.big_p = 1.0 if n <= 1 else min(1.0, 2.0 / n)
        return self.struct(schema, 0)
