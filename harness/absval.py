"""Seeded boundary sampler of abstract values over an abstract schema.

Draws only *canonical, well-typed* values (the domain of C01/C02): integers inside the Kafka
type's range, whole-millisecond durations inside the Python-representable range, timestamps
the library's own timestamp type admits (asked through isinstance, so the sampler follows
whatever the predicate is), non-zero UUIDs, finite floats, valid UTF-8.

Dimensions covered per field: null / non-null (nullable), null / empty / one / many (arrays),
default / non-default (tagged), boundary values of each primitive, string lengths around the
one- and two-byte varint boundaries, multi-byte UTF-8.
"""
from __future__ import annotations

import datetime
import random

from .project import NULL, ablob, afloat, aint, EPOCH

INT_RANGES = {
    "int8": (-(2**7), 2**7 - 1), "int16": (-(2**15), 2**15 - 1),
    "int32": (-(2**31), 2**31 - 1), "int64": (-(2**63), 2**63 - 1),
    "uint8": (0, 2**8 - 1), "uint16": (0, 2**16 - 1),
    "uint32": (0, 2**32 - 1), "uint64": (0, 2**64 - 1),
    "timedelta_i32": (-(2**31), 2**31 - 1),
}
# whole milliseconds that datetime.timedelta can hold (timedelta.min .. timedelta.max - 1 day)
TD64_LO = datetime.timedelta.min // datetime.timedelta(milliseconds=1)
TD64_HI = (datetime.timedelta.max - datetime.timedelta(days=1)) // datetime.timedelta(milliseconds=1)
DT_HI_S = 253402300799           # 9999-12-31T23:59:59Z in seconds

UTF8_SNIPPETS = ["", "a", "kafka", "é", "日本語", "😀", "a\u0000b", "ß∂ƒ", "߿ࠀ￿"]
STRING_LENGTHS = [0, 1, 2, 126, 127, 128, 129]
RARE_LENGTHS = [16382, 16383, 16384, 32767]


class Sampler:
    def __init__(self, seed: int, profile: str = "mixed", ms_timestamps: bool = False,
                 wire_domain: bool = False):
        self.r = random.Random(seed)
        self.profile = profile
        self.ms_timestamps = ms_timestamps     # timestamps with non-zero milliseconds
        self.wire_domain = wire_domain         # C03/C05: full wire domain of each type
        self.budget = 0

    # ----- primitives
    def _int_in(self, lo: int, hi: int) -> int:
        r = self.r
        menu = [lo, lo + 1, -1, 0, 1, hi - 1, hi]
        menu = [m for m in menu if lo <= m <= hi]
        c = r.random()
        if self.profile == "min":
            return lo if c < 0.7 else r.choice(menu)
        if self.profile == "max":
            return hi if c < 0.7 else r.choice(menu)
        if c < 0.45:
            return r.choice(menu)
        if c < 0.7:
            k = r.randrange(0, max(1, hi.bit_length()))
            v = r.choice([1, -1]) * ((1 << k) + r.choice([-1, 0, 1]))
            return min(hi, max(lo, v))
        return r.randint(lo, hi)

    def _text(self, legacy: bool, depth: int) -> bytes:
        r = self.r
        c = r.random()
        if c < 0.3:
            return r.choice(UTF8_SNIPPETS).encode()
        n = r.choice(STRING_LENGTHS)
        if depth == 0 and c > 0.97 and self.budget > 40000:
            n = r.choice(RARE_LENGTHS)
            self.budget -= n
        if c < 0.5:
            return bytes(r.choice(b"abcxyz019-_.") for _ in range(n))
        # multi-byte fill up to exactly n bytes
        out = b""
        while len(out) < n:
            ch = r.choice(["é", "日", "😀", "k", "ü"]).encode()
            if len(out) + len(ch) <= n:
                out += ch
            else:
                out += b"x" * (n - len(out))
        return out

    def _blob(self, depth: int) -> bytes:
        r = self.r
        n = r.choice(STRING_LENGTHS)
        if depth == 0 and r.random() > 0.97 and self.budget > 40000:
            n = r.choice(RARE_LENGTHS + [70000])
            self.budget -= n
        return bytes(r.randrange(256) for _ in range(n)) if n < 300 else bytes([r.randrange(256)]) * n

    def prim(self, kt: str, legacy: bool, depth: int) -> dict:
        r = self.r
        if kt in INT_RANGES:
            return aint(self._int_in(*INT_RANGES[kt]))
        if kt == "timedelta_i64":
            if self.wire_domain:
                return aint(self._int_in(TD64_LO, TD64_HI))
            return aint(self._int_in(TD64_LO, TD64_HI))
        if kt == "datetime_i64":
            s = self._int_in(0, DT_HI_S)
            ms = s * 1000
            if self.ms_timestamps and r.random() < 0.8:
                ms += r.choice([1, 123, 500, 999, r.randrange(1000)])
            return aint(ms)
        if kt == "error_code":
            return aint(r.choice([-1, 0, 1, 127, r.randint(-1, 127)]))
        if kt == "bool":
            return {"int": r.choice([0, 1])}
        if kt == "float64":
            c = r.random()
            if c < 0.5:
                return afloat(r.choice([0.0, -0.0, 1.0, -1.5, 5e-324, 1.7976931348623157e308,
                                        -2.2250738585072014e-308, 0.1, 123456.789]))
            return afloat(r.uniform(-1e6, 1e6) * 10 ** r.randint(-300, 300))
        if kt == "string":
            return ablob(self._text(legacy, depth))
        if kt in ("bytes", "records"):
            return ablob(self._blob(depth))
        if kt == "uuid":
            c = r.random()
            if c < 0.2:
                return ablob(bytes([0] * 15 + [1]))
            if c < 0.3:
                return ablob(bytes([255] * 16))
            return ablob(bytes([r.randrange(256) for _ in range(15)] + [r.randrange(1, 256)]))
        raise ValueError(kt)

    # ----- composite
    def item(self, fs: dict, flex: bool, depth: int, nullok: bool) -> dict:
        self.budget -= 1
        if nullok and self._null_roll():
            return NULL
        if fs["kind"] == "struct":
            return self.struct(fs["sub"], depth + 1)
        return self.prim(fs["ktype"], not flex, depth)

    def _null_roll(self) -> bool:
        p = {"min": 0.8, "max": 0.05}.get(self.profile, 0.3)
        return self.r.random() < p

    def field(self, fs: dict, schema: dict, depth: int) -> dict:
        r = self.r
        flex = schema["flex"]
        client_id = schema["name"] == "RequestHeader" and fs["name"] == "client_id"
        tagged = fs["tag"] >= 0
        if tagged and fs["hasd"] and r.random() < {"min": 0.8, "max": 0.1}.get(self.profile, 0.4):
            return fs["dflt"]
        if fs["arr"]:
            if fs["nul"] and self._null_roll() and not (tagged and "null" not in fs["dflt"]):
                return NULL
            if self.budget <= 0:
                n = 0
            else:
                n = {"min": r.choice([0, 0, 1]), "max": r.choice([2, 3, 4])}.get(
                    self.profile, r.choice([0, 1, 1, 2, 2, 3]))
                if depth >= 2:
                    n = min(n, 2)
                if depth >= 3:
                    n = min(n, 1)
            return {"seq": [self.item(fs, flex, depth, fs["inul"]) for _ in range(n)]}
        nullok = fs["nul"] or client_id
        if tagged and fs["nul"] and "null" not in fs["dflt"]:
            nullok = False      # a null here would have to be written explicitly: outside kio's documented support
        if fs["kind"] == "prim" and fs["ktype"] == "uuid":
            nullok = True
        return self.item(fs, False if client_id else flex, depth, nullok)

    def struct(self, schema: dict, depth: int = 0) -> dict:
        return {"rec": [self.field(fs, schema, depth) for fs in schema["fields"]]}

    def value(self, schema: dict, budget: int = 60000) -> dict:
        self.budget = budget
        return self.struct(schema, 0)
