"""Drive kio.records (write_new_batch / write_batch / read_batch) and record cases for
spec/RecordTrace.tla (C17, C18)."""
from __future__ import annotations

import datetime
import json
import os
import random
import sys

from . import kioenv, project
from .project import NULL, ablob, aint, babs
from .streams import RecSink, RecSource

kioenv.activate()

LENGTHS = [0, 1, 2, 63, 64, 65, 127, 128]
BIG_LENGTHS = [8191, 8192, 8193, 16384, 66000]
SEC = datetime.timedelta(seconds=1)
MS = datetime.timedelta(milliseconds=1)


def _bytes(r: random.Random, big_ok: bool) -> bytes | None:
    c = r.random()
    if c < 0.2:
        return None
    if big_ok and c > 0.97:
        n = r.choice(BIG_LENGTHS)
        return bytes([r.randrange(256)]) + bytes([r.choice([0, 0x61, 0xFF])]) * (n - 1)
    n = r.choice(LENGTHS)
    return bytes(r.randrange(256) for _ in range(n))


def _ab(b: bytes | None) -> dict:
    return NULL if b is None else ablob(b)


def sample_new_batch(r: random.Random, big_ok: bool = True) -> tuple[dict, list[dict]]:
    def lim(bits):
        lo, hi = -(2 ** (bits - 1)), 2 ** (bits - 1) - 1
        return r.choice([lo, -1, 0, 1, hi, r.randint(lo, hi)])
    p = {"producer_id": aint(lim(64)), "producer_epoch": aint(lim(16)), "ple": aint(lim(32)),
         "base_seq": aint(lim(32)), "attributes": aint(lim(16))}
    n = r.choice([1, 1, 2, 2, 3, 5] + ([40] if big_ok and r.random() < 0.1 else []))
    base_off = r.choice([0, 1, 5, 2**31, 2**62, -7, r.randrange(0, 2**40)])
    base_ts = r.choice([0, 1, 999, 1000, 1503229838908, 1716899460123, r.randrange(0, 4102444800000),
                        253402300799999 - 5000])
    recs = []
    for i in range(n):
        if i == 0:
            off, ts = base_off, base_ts
        else:
            off = base_off + r.choice([i, -i, 0, 1, 2**31 - 1 if r.random() < 0.1 else i * 3,
                                       -(2**31) if r.random() < 0.05 else i])
            ts = base_ts + r.choice([0, 1, -1, 999, 1000, -1000, 168, r.randrange(-10**6, 10**6)])
            ts = min(max(ts, 0), 253402300799999)
        hdrs = [[_ab(_bytes(r, False)), _ab(_bytes(r, False))] for _ in range(r.choice([0, 0, 1, 2, 3]))]
        recs.append({"attrs": aint(r.choice([0, 0, 1, -128, 127])), "ts": aint(ts), "offset": aint(off),
                     "key": _ab(_bytes(r, big_ok and n < 5)), "value": _ab(_bytes(r, big_ok and n < 5)),
                     "headers": hdrs})
    return p, recs


def boundary_batches(thorough: bool = False) -> list[tuple[dict, list[dict]]]:
    """Deterministic batches that put every varint of the record format on both sides of each of its
    width boundaries: zig-zag lengths of key / value / header key / header value (63|64, 8191|8192|8193,
    and 2^20 in the thorough tier), the header count, offset deltas and timestamp deltas of either sign
    (1|2, 2|3, 3|4, 4|5 bytes; timestamp deltas also at the 5|6 byte boundary of a varlong)."""
    p = {"producer_id": aint(1), "producer_epoch": aint(0), "ple": aint(0), "base_seq": aint(0), "attributes": aint(0)}

    def rec(off=0, ts=10**12, key=None, value=None, headers=()):
        return {"attrs": aint(0), "ts": aint(ts), "offset": aint(off), "key": _ab(key), "value": _ab(value),
                "headers": [[_ab(k), _ab(v)] for k, v in headers]}

    def blob(n):
        return bytes([n % 251]) + b"\x61" * (n - 1) if n else b""
    out = []
    lengths = [63, 64, 65, 8191, 8192, 8193] + ([1048575, 1048576] if thorough else [])
    for n in lengths:
        out.append((p, [rec(key=blob(n))]))
        out.append((p, [rec(value=blob(n))]))
        out.append((p, [rec(key=b"k", headers=[(blob(n), b"v")])]))
        out.append((p, [rec(key=b"k", headers=[(b"h", blob(n))])]))
    for n in (63, 64, 65):
        out.append((p, [rec(value=b"v", headers=[(b"h", None)] * n)]))
    deltas = []
    for k in (6, 13, 20, 27):
        deltas += [2**k - 1, 2**k, -(2**k), -(2**k) - 1]
    for d in deltas + [2**31 - 1, -(2**31)]:
        out.append((p, [rec(off=2**40), rec(off=2**40 + d)]))
    for d in deltas + [2**34 - 1, 2**34, -(2**34), -(2**34) - 1, 2**31 - 1, 2**31, -(2**31) - 1]:
        out.append((p, [rec(ts=10**12), rec(ts=10**12 + d)]))
        out.append((p, [rec(ts=10**12 + d), rec(ts=10**12)]))
    return out


def build_new_batch(p: dict, recs: list[dict]):
    from kio.records.schema import NewRecordBatch, Record, RecordHeader
    u = project.unaint

    def ub(a):
        return None if "null" in a else project.unblob(a)
    records = tuple(
        Record(attributes=u(x["attrs"]), timestamp=project.EPOCH + datetime.timedelta(milliseconds=u(x["ts"])),
               offset=u(x["offset"]), key=ub(x["key"]), value=ub(x["value"]),
               headers=tuple(RecordHeader(key=ub(h[0]), value=ub(h[1])) for h in x["headers"]))
        for x in recs)
    return NewRecordBatch(producer_id=u(p["producer_id"]), producer_epoch=u(p["producer_epoch"]),
                          partition_leader_epoch=u(p["ple"]), base_sequence=u(p["base_seq"]),
                          records=records, attributes=u(p["attributes"]))


def outcome(exc) -> str:
    return "ok" if exc is None else "raise:" + type(exc).__name__


def new_case(cid: str, p: dict, recs: list[dict]) -> dict:
    from kio.records.writers import write_batch
    sink = RecSink()
    exc = None
    try:
        write_batch(sink, build_new_batch(p, recs))
    except BaseException as e:  # noqa: BLE001
        exc = e
    return {"id": cid, "mode": "new", "given": False, "p": p, "recs": recs, "wev": RecSink.events(sink),
            "wout": outcome(exc), "werr": "" if exc is None else repr(exc)[:200]}


def project_batch(b) -> dict:
    def rec(x):
        secs, rem = divmod(x.timestamp - project.EPOCH, SEC)
        q, sub = divmod(rem, MS)
        return {"attrs": aint(int(x.attributes)), "ts_s": aint(secs), "ts_ms": int(q) if not sub else -1,
                "offset": aint(int(x.offset)), "key": _ab(x.key), "value": _ab(x.value),
                "headers": [[_ab(h.key), _ab(h.value)] for h in x.headers]}
    crc = int(b.crc)
    return {"base_offset": aint(int(b.base_offset)), "batch_length": aint(int(b.batch_length)),
            "ple": aint(int(b.partition_leader_epoch)), "crc": [crc >> 16, crc & 0xFFFF],
            "attributes": aint(int(b.attributes)), "last_offset_delta": aint(int(b.last_offset_delta)),
            "base_ts": aint(int(b.base_timestamp)), "max_ts": aint(int(b.max_timestamp)),
            "producer_id": aint(int(b.producer_id)), "producer_epoch": aint(int(b.producer_epoch)),
            "base_seq": aint(int(b.base_sequence)), "records": [rec(x) for x in b.records]}


EMPTY_BATCH = {"base_offset": aint(0), "batch_length": aint(0), "ple": aint(0), "crc": [0, 0],
               "attributes": aint(0), "last_offset_delta": aint(0), "base_ts": aint(0), "max_ts": aint(0),
               "producer_id": aint(0), "producer_epoch": aint(0), "base_seq": aint(0), "records": []}


def try_read(data: bytes):
    from kio.records.readers import read_batch
    src = RecSource(data)
    try:
        return read_batch(src), None, RecSource.pos(src)
    except BaseException as e:  # noqa: BLE001
        return None, e, RecSource.pos(src)


def read_case(cid: str, raw: bytes, src: str, p: dict, recs: list[dict], rng: random.Random,
              all_flips_below: int) -> dict:
    from kio.records.writers import write_batch
    junk = bytes(rng.randrange(256) for _ in range(rng.choice([0, 3, 20])))
    batch, exc, consumed = try_read(raw + junk)
    case = {"id": cid, "mode": "read", "src": src, "p": p, "recs": recs, "input": babs(raw),
            "rout": outcome(exc), "rerr": "" if exc is None else repr(exc)[:200],
            "rbatch": EMPTY_BATCH, "consumed": consumed, "wev": [], "wout": "skipped", "faults": []}
    if exc is None:
        case["rbatch"] = project_batch(batch)
        sink = RecSink()
        wexc = None
        try:
            write_batch(sink, batch)
        except BaseException as e:  # noqa: BLE001
            wexc = e
        case["wev"], case["wout"] = RecSink.events(sink), outcome(wexc)
    n = len(raw)
    faults = []
    positions = range(17, n) if n <= all_flips_below else sorted(
        set(range(17, 70)) | {rng.randrange(17, n) for _ in range(150)} | set(range(n - 8, n)))
    for pos in positions:
        for bit in (range(8) if n <= all_flips_below else [rng.randrange(8), rng.randrange(8)]):
            b = bytearray(raw)
            b[pos] ^= 1 << bit
            r_, e_, _ = try_read(bytes(b) + junk)
            faults.append({"kind": "flip", "pos": pos, "bit": bit, "out": "returned" if e_ is None else "raised"})
    for m in (0, 1, 3, 6, 10, 18, 34, 66, 130, 255):
        b = bytearray(raw)
        b[16] = m
        r_, e_, _ = try_read(bytes(b) + junk)
        faults.append({"kind": "magic", "pos": 16, "bit": m, "out": "returned" if e_ is None else "raised"})
    for k in (range(n) if n <= all_flips_below else sorted(set(range(0, 70)) | {rng.randrange(n) for _ in range(100)} | set(range(n - 8, n)))):
        r_, e_, _ = try_read(raw[:k])
        faults.append({"kind": "trunc", "pos": k, "bit": 0, "out": "returned" if e_ is None else "raised"})
    case["faults"] = faults
    return case


def fixture_batches() -> list[bytes]:
    """The real-broker fixtures shipped with the repository's tests, split at batch boundaries."""
    sys.path.insert(0, kioenv.REPO)
    try:
        import importlib
        fx = importlib.import_module("tests.fixtures")
    finally:
        sys.path.remove(kioenv.REPO)
    out = []
    for name in dir(fx):
        v = getattr(fx, name)
        if name.startswith("record_batch_data") and isinstance(v, (bytes, tuple, list)):
            data = v if isinstance(v, bytes) else b"".join(x for x in v if isinstance(x, bytes))
            pos = 0
            while pos + 12 <= len(data):
                ln = int.from_bytes(data[pos + 8:pos + 12], "big", signed=True)
                if ln <= 0 or pos + 12 + ln > len(data):
                    break
                out.append(data[pos:pos + 12 + ln])
                pos += 12 + ln
    return out


def write_cases(path: str, cases: list[dict]) -> None:
    with open(path, "w") as f:
        json.dump({"cases": cases}, f, separators=(",", ":"))


def failing_write(r: random.Random, p: dict, recs: list[dict]) -> str:
    """A write that fails part-way - because of a value (a str where bytes are expected, somewhere after
    the first record) or because the sink raises at some write - and is handled by the caller.  Its own
    outcome is not judged; what the NEXT batch looks like is."""
    import dataclasses
    from kio.records.writers import write_batch
    batch = build_new_batch(p, recs)
    try:
        if r.random() < 0.5:
            bad = dataclasses.replace(batch.records[-1], value="not bytes")
            batch = dataclasses.replace(batch, records=batch.records + (bad,))
            write_batch(RecSink(), batch)
        else:
            write_batch(RecSink(fail_at=r.choice([1, 2, 3, 5, 8])), batch)
        return "no failure"
    except BaseException as e:  # noqa: BLE001
        return type(e).__name__


def gen_new_shard(args) -> dict:
    path, lo, hi, seed = args
    cases = []
    bnd = boundary_batches(thorough=hi - lo > 60)
    for i in range(lo, hi):
        r = random.Random(seed * 7919 + i)
        p, recs = sample_new_batch(r, big_ok=(i % 40 == 0))
        if i % 2 == 0 and i // 2 < len(bnd):
            p, recs = bnd[i // 2]
        if i % 3 == 1:
            failing_write(r, *sample_new_batch(random.Random(seed + i), big_ok=False))
        cases.append(new_case(f"n{i}", p, recs))
    write_cases(path, cases)
    return {"path": path, "cases": len(cases)}


def given_header(r: random.Random, p: dict, recs: list[dict]) -> tuple[dict, list[dict]]:
    """A well-formed batch whose header is NOT derivable from its records (a compacted batch keeps its
    header while records are removed): larger lastOffsetDelta / maxTimestamp, earlier base offset /
    timestamp, possibly no records at all."""
    u = project.unaint
    offs = [u(x["offset"]) for x in recs]
    tss = [u(x["ts"]) for x in recs]
    base_off = min(offs) - r.choice([0, 0, 2])
    base_ts = max(0, min(tss) - r.choice([0, 0, 7, 1000]))
    last = max(o - base_off for o in offs) + r.choice([0, 3, 40])
    keep = [x for x in recs if -(2**31) <= u(x["offset"]) - base_off < 2**31]
    if r.random() < 0.15:
        keep = []
    h = {"base_offset": aint(base_off), "ple": p["ple"], "attributes": p["attributes"],
         "last_offset_delta": aint(min(last, 2**31 - 1)), "base_ts": aint(base_ts),
         "max_ts": aint(max(tss) + r.choice([0, 0, 5000])), "producer_id": p["producer_id"],
         "producer_epoch": p["producer_epoch"], "base_seq": p["base_seq"]}
    return h, keep


def gen_enc_inputs(args) -> dict:
    path, lo, hi, seed = args
    cases = []
    bnd = boundary_batches()
    bnd = [bnd[(j * 37) % len(bnd)] for j in range(len(bnd))]      # a spread of kinds first (37 is coprime to the count)
    bnd = [b for b in bnd if sum(len(project.unblob(x[k])) for x in b[1] for k in ("key", "value") if "null" not in x[k]) < 200]
    for i in range(lo, hi):
        r = random.Random(seed * 104729 + i)
        p, recs = sample_new_batch(r, big_ok=False)
        given = i % 3 == 1
        if i % 3 == 0 and i // 3 < len(bnd):
            p, recs = bnd[i // 3]
        if i in (4, 10):
            # a batch above 64 KiB whose encoding ends in zero bytes (empty value, no headers): a reader that
            # fills a pre-zeroed buffer must still notice a cut inside that tail
            big = bytes([i]) + b"\x61" * (70000 + i)
            p = {"producer_id": aint(7), "producer_epoch": aint(1), "ple": aint(0), "base_seq": aint(0), "attributes": aint(0)}
            recs = [{"attrs": aint(0), "ts": aint(10**12), "offset": aint(5), "key": _ab(b"k"), "value": _ab(big), "headers": []},
                    {"attrs": aint(0), "ts": aint(10**12), "offset": aint(6), "key": _ab(None) if i == 4 else _ab(b""),
                     "value": _ab(b""), "headers": []}]
            given = False
        if given:
            p, recs = given_header(r, p, recs)
        cases.append({"id": f"e{i}", "mode": "enc", "given": given, "p": p, "recs": recs})
    write_cases(path, cases)
    return {"path": path, "cases": len(cases)}


def gen_read_shard(args) -> dict:
    in_path, encoded, fixtures, out_path, seed, all_flips_below = args
    with open(in_path) as f:
        data = json.load(f)
    enc = {e["id"]: e for e in encoded}
    cases, nf = [], 0
    for c in data["cases"]:
        raw = project.unbabs(enc[c["id"]]["b"])
        rng = random.Random(seed * 31337 + len(cases))
        rc = read_case(c["id"].replace("e", "r"), raw, "spec", c["p"], c["recs"], rng, all_flips_below)
        rc["given"] = c["given"]
        nf += len(rc["faults"])
        cases.append(rc)
    for j, raw in enumerate(fixtures):
        rng = random.Random(seed + j)
        rc = read_case(f"fixture{j}", raw, "fixture", {}, [], rng, 100000)
        rc["given"] = False
        nf += len(rc["faults"])
        cases.append(rc)
    write_cases(out_path, cases)
    return {"path": out_path, "cases": len(cases), "faults": nf}


# ------------------------------------------------------------------ two threads, every preemption point
def _schedules(points: int, rng: random.Random, sweep: int, rnd: int) -> list[list[int]]:
    """[k, inf]: thread 0 is preempted after k switch points, thread 1 runs its whole call, thread 0
    resumes; plus random multi-switch run-length lists."""
    ks = list(range(1, points + 1)) if points <= sweep else sorted({1 + (j * points) // sweep for j in range(sweep)})
    out = [[k, 10**9] for k in ks]
    for _ in range(rnd):
        out.append([rng.randint(1, max(2, points // 3)) for _ in range(rng.choice([2, 3, 5, 8]))])
    return out


def _run_pairs(bodies_for, rng: random.Random, sweep: int, rnd: int) -> tuple[list[dict], int, int]:
    from . import sched
    probe = sched.run_bodies(bodies_for(), [10**9])
    cases, seen, nruns, switches = [], set(), 0, 0
    for j, runs in enumerate([[10**9]] + _schedules(probe["points"], rng, sweep, rnd)):
        res = probe if j == 0 else sched.run_bodies(bodies_for(), runs)
        nruns += 1
        switches += res["switches"]
        if res["abandoned"]:
            continue
        for c in res["cases"]:
            key = json.dumps({k: v for k, v in c.items() if k != "id"}, sort_keys=True)
            if key in seen:
                continue
            seen.add(key)
            c["id"] = c["id"] + f"s{j}"
            c["sched"] = runs if len(runs) < 12 else runs[:12]
            cases.append(c)
    return cases, nruns, switches


def concurrent_new_shard(args) -> dict:
    """Pairs of write_batch calls on private sinks in two threads, preempted at every switch point
    (line events in kio's files and the sink's write calls).  Outputs that are identical to one already
    seen for the same input are validated once."""
    from . import sched
    from kio.records.writers import write_batch
    path, lo, hi, seed, sweep, rnd = args
    cases, nruns, switches = [], 0, 0
    for i in range(lo, hi):
        r = random.Random(seed * 65537 + i)
        inputs = [sample_new_batch(r, big_ok=False) for _ in range(2)]
        if i % 2 == 0:      # make sure there are records with several headers to be preempted in
            for p_, recs_ in inputs:
                recs_[0]["headers"] = [[_ab(b"h%d" % j), _ab(bytes([j]) * (j + 1))] for j in range(3)]

        def bodies_for(inputs=inputs, i=i):
            def mk(t):
                p_, recs_ = inputs[t]

                def body(hook, out):
                    sink = sched.SchedSink(hook)
                    exc = None
                    try:
                        write_batch(sink, build_new_batch(p_, recs_))
                    except BaseException as e:  # noqa: BLE001
                        exc = e
                    out.append({"id": f"x{i}t{t}", "mode": "new", "given": False, "p": p_, "recs": recs_,
                                "wev": RecSink.events(sink), "wout": outcome(exc),
                                "werr": "" if exc is None else repr(exc)[:200]})
                return body
            return [mk(0), mk(1)]
        cs, n, sw = _run_pairs(bodies_for, r, sweep, rnd)
        cases += cs
        nruns += n
        switches += sw
    write_cases(path, cases)
    return {"path": path, "cases": len(cases), "runs": nruns, "switches": switches}


def concurrent_read_shard(args) -> dict:
    """Pairs of read_batch (+ write back) calls on private streams in two threads, as above."""
    from . import sched
    from kio.records.readers import read_batch
    from kio.records.writers import write_batch
    in_path, encoded, out_path, seed, sweep, rnd = args
    with open(in_path) as f:
        data = json.load(f)
    enc = {e["id"]: e for e in encoded}
    items = [(c, project.unbabs(enc[c["id"]]["b"])) for c in data["cases"]]
    cases, nruns, switches = [], 0, 0
    for i in range(0, len(items) - 1, 2):
        r = random.Random(seed * 92821 + i)
        pair = items[i:i + 2]

        def bodies_for(pair=pair, i=i):
            def mk(t):
                c, raw = pair[t]

                def body(hook, out):
                    src = sched.SchedSource(raw + b"\x00\x01\x02", hook)
                    batch, exc = None, None
                    try:
                        batch = read_batch(src)
                    except BaseException as e:  # noqa: BLE001
                        exc = e
                    case = {"id": c["id"].replace("e", "y") + f"t{t}", "mode": "read", "src": "spec", "p": c["p"],
                            "recs": c["recs"], "given": c["given"], "input": babs(raw), "rout": outcome(exc),
                            "rerr": "" if exc is None else repr(exc)[:200], "rbatch": EMPTY_BATCH,
                            "consumed": RecSource.pos(src), "wev": [], "wout": "skipped", "faults": []}
                    if exc is None:
                        case["rbatch"] = project_batch(batch)
                        sink = sched.SchedSink(hook)
                        wexc = None
                        try:
                            write_batch(sink, batch)
                        except BaseException as e:  # noqa: BLE001
                            wexc = e
                        case["wev"], case["wout"] = RecSink.events(sink), outcome(wexc)
                    out.append(case)
                return body
            return [mk(0), mk(1)]
        cs, n, sw = _run_pairs(bodies_for, r, sweep, rnd)
        cases += cs
        nruns += n
        switches += sw
    write_cases(out_path, cases)
    return {"path": out_path, "cases": len(cases), "faults": 0, "runs": nruns, "switches": switches}
