"""Drive kio.records (write_new_batch / write_batch / read_batch) and record cases for
spec/RecordTrace.tla (C17, C18)."""
from __future__ import annotations

import datetime
import json
import os
import random
import sys

from . import kioenv, project
from .project import NULL, ablob, aint, babs
from .streams import RecSink, RecSource

kioenv.activate()

LENGTHS = [0, 1, 2, 63, 64, 65, 127, 128]
BIG_LENGTHS = [8191, 8192, 8193, 16384, 66000]
SEC = datetime.timedelta(seconds=1)
MS = datetime.timedelta(milliseconds=1)


def _bytes(r: random.Random, big_ok: bool) -> bytes | None:
    c = r.random()
    if c < 0.2:
        return None
    if big_ok and c > 0.97:
        n = r.choice(BIG_LENGTHS)
        return bytes([r.randrange(256)]) + bytes([r.choice([0, 0x61, 0xFF])]) * (n - 1)
    n = r.choice(LENGTHS)
    return bytes(r.randrange(256) for _ in range(n))


def _ab(b: bytes | None) -> dict:
    return NULL if b is None else ablob(b)


def sample_new_batch(r: random.Random, big_ok: bool = True) -> tuple[dict, list[dict]]:
    def lim(bits):
        lo, hi = -(2 ** (bits - 1)), 2 ** (bits - 1) - 1
        return r.choice([lo, -1, 0, 1, hi, r.randint(lo, hi)])
    p = {"producer_id": aint(lim(64)), "producer_epoch": aint(lim(16)), "ple": aint(lim(32)),
         "base_seq": aint(lim(32)), "attributes": aint(lim(16))}
    n = r.choice([1, 1, 2, 2, 3, 5] + ([40] if big_ok and r.random() < 0.1 else []))
    base_off = r.choice([0, 1, 5, 2**31, 2**62, -7, r.randrange(0, 2**40)])
    base_ts = r.choice([0, 1, 999, 1000, 1503229838908, 1716899460123, r.randrange(0, 4102444800000),
                        253402300799999 - 5000])
    recs = []
    for i in range(n):
        if i == 0:
            off, ts = base_off, base_ts
        else:
            off = base_off + r.choice([i, -i, 0, 1, 2**31 - 1 if r.random() < 0.1 else i * 3,
                                       -(2**31) if r.random() < 0.05 else i])
            ts = base_ts + r.choice([0, 1, -1, 999, 1000, -1000, 168, r.randrange(-10**6, 10**6)])
            ts = min(max(ts, 0), 253402300799999)
        hdrs = [[_ab(_bytes(r, False)), _ab(_bytes(r, False))] for _ in range(r.choice([0, 0, 1, 2, 3]))]
        recs.append({"attrs": aint(r.choice([0, 0, 1, -128, 127])), "ts": aint(ts), "offset": aint(off),
                     "key": _ab(_bytes(r, big_ok and n < 5)), "value": _ab(_bytes(r, big_ok and n < 5)),
                     "headers": hdrs})
    return p, recs


def build_new_batch(p: dict, recs: list[dict]):
    from kio.records.schema import NewRecordBatch, Record, RecordHeader
    u = project.unaint

    def ub(a):
        return None if "null" in a else project.unblob(a)
    records = tuple(
        Record(attributes=u(x["attrs"]), timestamp=project.EPOCH + datetime.timedelta(milliseconds=u(x["ts"])),
               offset=u(x["offset"]), key=ub(x["key"]), value=ub(x["value"]),
               headers=tuple(RecordHeader(key=ub(h[0]), value=ub(h[1])) for h in x["headers"]))
        for x in recs)
    return NewRecordBatch(producer_id=u(p["producer_id"]), producer_epoch=u(p["producer_epoch"]),
                          partition_leader_epoch=u(p["ple"]), base_sequence=u(p["base_seq"]),
                          records=records, attributes=u(p["attributes"]))


def outcome(exc) -> str:
    return "ok" if exc is None else "raise:" + type(exc).__name__


def new_case(cid: str, p: dict, recs: list[dict]) -> dict:
    from kio.records.writers import write_batch
    sink = RecSink()
    exc = None
    try:
        write_batch(sink, build_new_batch(p, recs))
    except BaseException as e:  # noqa: BLE001
        exc = e
    return {"id": cid, "mode": "new", "given": False, "p": p, "recs": recs, "wev": RecSink.events(sink),
            "wout": outcome(exc), "werr": "" if exc is None else repr(exc)[:200]}


def project_batch(b) -> dict:
    def rec(x):
        secs, rem = divmod(x.timestamp - project.EPOCH, SEC)
        q, sub = divmod(rem, MS)
        return {"attrs": aint(int(x.attributes)), "ts_s": aint(secs), "ts_ms": int(q) if not sub else -1,
                "offset": aint(int(x.offset)), "key": _ab(x.key), "value": _ab(x.value),
                "headers": [[_ab(h.key), _ab(h.value)] for h in x.headers]}
    crc = int(b.crc)
    return {"base_offset": aint(int(b.base_offset)), "batch_length": aint(int(b.batch_length)),
            "ple": aint(int(b.partition_leader_epoch)), "crc": [crc >> 16, crc & 0xFFFF],
            "attributes": aint(int(b.attributes)), "last_offset_delta": aint(int(b.last_offset_delta)),
            "base_ts": aint(int(b.base_timestamp)), "max_ts": aint(int(b.max_timestamp)),
            "producer_id": aint(int(b.producer_id)), "producer_epoch": aint(int(b.producer_epoch)),
            "base_seq": aint(int(b.base_sequence)), "records": [rec(x) for x in b.records]}


EMPTY_BATCH = {"base_offset": aint(0), "batch_length": aint(0), "ple": aint(0), "crc": [0, 0],
               "attributes": aint(0), "last_offset_delta": aint(0), "base_ts": aint(0), "max_ts": aint(0),
               "producer_id": aint(0), "producer_epoch": aint(0), "base_seq": aint(0), "records": []}


def try_read(data: bytes):
    from kio.records.readers import read_batch
    src = RecSource(data)
    try:
        return read_batch(src), None, RecSource.pos(src)
    except BaseException as e:  # noqa: BLE001
        return None, e, RecSource.pos(src)


def read_case(cid: str, raw: bytes, src: str, p: dict, recs: list[dict], rng: random.Random,
              all_flips_below: int) -> dict:
    from kio.records.writers import write_batch
    junk = bytes(rng.randrange(256) for _ in range(rng.choice([0, 3, 20])))
    batch, exc, consumed = try_read(raw + junk)
    case = {"id": cid, "mode": "read", "src": src, "p": p, "recs": recs, "input": babs(raw),
            "rout": outcome(exc), "rerr": "" if exc is None else repr(exc)[:200],
            "rbatch": EMPTY_BATCH, "consumed": consumed, "wev": [], "wout": "skipped", "faults": []}
    if exc is None:
        case["rbatch"] = project_batch(batch)
        sink = RecSink()
        wexc = None
        try:
            write_batch(sink, batch)
        except BaseException as e:  # noqa: BLE001
            wexc = e
        case["wev"], case["wout"] = RecSink.events(sink), outcome(wexc)
    n = len(raw)
    faults = []
    positions = range(17, n) if n <= all_flips_below else sorted(
        set(range(17, 70)) | {rng.randrange(17, n) for _ in range(150)} | set(range(n - 8, n)))
    for pos in positions:
        for bit in (range(8) if n <= all_flips_below else [rng.randrange(8), rng.randrange(8)]):
            b = bytearray(raw)
            b[pos] ^= 1 << bit
            r_, e_, _ = try_read(bytes(b) + junk)
            faults.append({"kind": "flip", "pos": pos, "bit": bit, "out": "returned" if e_ is None else "raised"})
    for m in (0, 1, 3, 6, 10, 18, 34, 66, 130, 255):
        b = bytearray(raw)
        b[16] = m
        r_, e_, _ = try_read(bytes(b) + junk)
        faults.append({"kind": "magic", "pos": 16, "bit": m, "out": "returned" if e_ is None else "raised"})
    for k in (range(n) if n <= all_flips_below else sorted(set(range(0, 70)) | {rng.randrange(n) for _ in range(100)} | set(range(n - 8, n)))):
        r_, e_, _ = try_read(raw[:k])
        faults.append({"kind": "trunc", "pos": k, "bit": 0, "out": "returned" if e_ is None else "raised"})
    case["faults"] = faults
    return case


def fixture_batches() -> list[bytes]:
    """The real-broker fixtures shipped with the repository's tests, split at batch boundaries."""
    sys.path.insert(0, kioenv.REPO)
    try:
        import importlib
        fx = importlib.import_module("tests.fixtures")
    finally:
        sys.path.remove(kioenv.REPO)
    out = []
    for name in dir(fx):
        v = getattr(fx, name)
        if name.startswith("record_batch_data") and isinstance(v, (bytes, tuple, list)):
            data = v if isinstance(v, bytes) else b"".join(x for x in v if isinstance(x, bytes))
            pos = 0
            while pos + 12 <= len(data):
                ln = int.from_bytes(data[pos + 8:pos + 12], "big", signed=True)
                if ln <= 0 or pos + 12 + ln > len(data):
                    break
                out.append(data[pos:pos + 12 + ln])
                pos += 12 + ln
    return out


def write_cases(path: str, cases: list[dict]) -> None:
    with open(path, "w") as f:
        json.dump({"cases": cases}, f, separators=(",", ":"))


def failing_write(r: random.Random, p: dict, recs: list[dict]) -> str:
    """A write that fails part-way - because of a value (a str where bytes are expected, somewhere after
    the first record) or because the sink raises at some write - and is handled by the caller.  Its own
    outcome is not judged; what the NEXT batch looks like is."""
    import dataclasses
    from kio.records.writers import write_batch
    batch = build_new_batch(p, recs)
    try:
        if r.random() < 0.5:
            bad = dataclasses.replace(batch.records[-1], value="not bytes")
            batch = dataclasses.replace(batch, records=batch.records + (bad,))
            write_batch(RecSink(), batch)
        else:
            write_batch(RecSink(fail_at=r.choice([1, 2, 3, 5, 8])), batch)
        return "no failure"
    except BaseException as e:  # noqa: BLE001
        return type(e).__name__


def gen_new_shard(args) -> dict:
    path, lo, hi, seed = args
    cases = []
    for i in range(lo, hi):
        r = random.Random(seed * 7919 + i)
        p, recs = sample_new_batch(r, big_ok=(i % 40 == 0))
        if i % 3 == 1:
            failing_write(r, *sample_new_batch(random.Random(seed + i), big_ok=False))
        cases.append(new_case(f"n{i}", p, recs))
    write_cases(path, cases)
    return {"path": path, "cases": len(cases)}


def given_header(r: random.Random, p: dict, recs: list[dict]) -> tuple[dict, list[dict]]:
    """A well-formed batch whose header is NOT derivable from its records (a compacted batch keeps its
    header while records are removed): larger lastOffsetDelta / maxTimestamp, earlier base offset /
    timestamp, possibly no records at all."""
    u = project.unaint
    offs = [u(x["offset"]) for x in recs]
    tss = [u(x["ts"]) for x in recs]
    base_off = min(offs) - r.choice([0, 0, 2])
    base_ts = max(0, min(tss) - r.choice([0, 0, 7, 1000]))
    last = max(o - base_off for o in offs) + r.choice([0, 3, 40])
    keep = [x for x in recs if -(2**31) <= u(x["offset"]) - base_off < 2**31]
    if r.random() < 0.15:
        keep = []
    h = {"base_offset": aint(base_off), "ple": p["ple"], "attributes": p["attributes"],
         "last_offset_delta": aint(min(last, 2**31 - 1)), "base_ts": aint(base_ts),
         "max_ts": aint(max(tss) + r.choice([0, 0, 5000])), "producer_id": p["producer_id"],
         "producer_epoch": p["producer_epoch"], "base_seq": p["base_seq"]}
    return h, keep


def gen_enc_inputs(args) -> dict:
    path, lo, hi, seed = args
    cases = []
    for i in range(lo, hi):
        r = random.Random(seed * 104729 + i)
        p, recs = sample_new_batch(r, big_ok=False)
        given = i % 3 == 1
        if given:
            p, recs = given_header(r, p, recs)
        cases.append({"id": f"e{i}", "mode": "enc", "given": given, "p": p, "recs": recs})
    write_cases(path, cases)
    return {"path": path, "cases": len(cases)}


def gen_read_shard(args) -> dict:
    in_path, encoded, fixtures, out_path, seed, all_flips_below = args
    with open(in_path) as f:
        data = json.load(f)
    enc = {e["id"]: e for e in encoded}
    cases, nf = [], 0
    for c in data["cases"]:
        raw = project.unbabs(enc[c["id"]]["b"])
        rng = random.Random(seed * 31337 + len(cases))
        rc = read_case(c["id"].replace("e", "r"), raw, "spec", c["p"], c["recs"], rng, all_flips_below)
        rc["given"] = c["given"]
        nf += len(rc["faults"])
        cases.append(rc)
    for j, raw in enumerate(fixtures):
        rng = random.Random(seed + j)
        rc = read_case(f"fixture{j}", raw, "fixture", {}, [], rng, 100000)
        rc["given"] = False
        nf += len(rc["faults"])
        cases.append(rc)
    write_cases(out_path, cases)
    return {"path": out_path, "cases": len(cases), "faults": nf}
