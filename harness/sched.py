"""C19: histories, failure points and thread schedules for entity_reader / entity_writer.

Every run starts from cold caches in a freshly forked child of a process that has imported kio and
the pool classes but never built a reader or writer - so any state a change to kio introduces
(module-level buffers, memo tables, per-codec scratch space) starts empty too.

A *program* is a list of operations per thread:
    ("w", class index, value index, fail_at)   encode value; the sink raises on write #fail_at (0: never)
    ("r", class index, value index, fail_at)   decode the specified bytes; the source raises on read #fail_at
    ("clear",)                                 clear the factory caches (any cache policy is allowed)
A *schedule* is a list of run lengths: the running thread keeps the baton for that many switch points
(line events inside kio's own files, seen through sys.settrace, plus every stream operation), then the
next thread gets it.  One thread with no schedule is a sequential history.

Every completed clean call becomes a CodecTrace case (mode "w1"/"r1"); CodecTrace decides whether its
output is F(class, value) - the definitional codec - which is all C19 asks: the result depends on nothing
else.
"""
from __future__ import annotations

import json
import os
import select
import signal
import sys
import threading
import time

from . import kioenv, project
from .streams import InjectedIOError, RecSink, RecSource

kioenv.activate()
KIO_DIR = os.path.join(kioenv.SRC, "kio") + os.sep
TRACED = (os.path.join(KIO_DIR, "serial") + os.sep, os.path.join(KIO_DIR, "records") + os.sep,
          os.path.join(KIO_DIR, "static") + os.sep, os.path.join(KIO_DIR, "_utils.py"))


class Baton:
    """Exactly one thread runs at a time; switches happen only at switch points."""

    def __init__(self, nthreads: int, runs: list[int]):
        self.sems = [threading.Semaphore(0) for _ in range(nthreads)]
        self.alive = [True] * nthreads
        self.cur = 0
        self.runs = list(runs)
        self.left = self.runs.pop(0) if self.runs else 10**9
        self.points = 0
        self.switches = 0
        self.abandoned = False
        self.lock = threading.Lock()

    def _next_alive(self, tid: int):
        n = len(self.alive)
        for d in range(1, n + 1):
            j = (tid + d) % n
            if self.alive[j] and j != tid:
                return j
        return None

    def point(self, tid: int) -> None:
        if self.abandoned or tid != self.cur:
            return
        self.points += 1
        self.left -= 1
        if self.left > 0:
            return
        nxt = self._next_alive(tid)
        self.left = self.runs.pop(0) if self.runs else 10**9
        if nxt is None:
            return
        self.switches += 1
        self.cur = nxt
        self.sems[nxt].release()
        if not self.sems[tid].acquire(timeout=20):
            self.abandoned = True          # never deadlock the harness: fall back to free running

    def wait_turn(self, tid: int) -> None:
        if tid != 0:
            if not self.sems[tid].acquire(timeout=30):
                self.abandoned = True

    def done(self, tid: int) -> None:
        self.alive[tid] = False
        if self.abandoned:
            for s in self.sems:
                s.release()
            return
        nxt = self._next_alive(tid)
        if nxt is not None and self.cur == tid:
            self.cur = nxt
            self.sems[nxt].release()


class SchedSink(RecSink):
    __slots__ = ("_hook",)

    def __init__(self, hook, fail_at=None):
        super().__init__(fail_at=fail_at or None)
        object.__setattr__(self, "_hook", hook)

    def write(self, b):
        self._hook()
        return RecSink.write(self, b)


class SchedSource(RecSource):
    __slots__ = ("_hook",)

    def __init__(self, data, hook, fail_at=None, budget=None):
        super().__init__(data, fail_at=fail_at or None, budget=budget)
        object.__setattr__(self, "_hook", hook)

    def read(self, n=-1):
        self._hook()
        return RecSource.read(self, n)


def run_program(tid: int, program: list, pool: list, hook, out: list) -> None:
    """Execute one thread's operations; append CodecTrace cases / notes to `out`."""
    from kio.serial import entity_reader, entity_writer
    for oi, op in enumerate(program):
        if op[0] == "clear":
            for f in (entity_reader, entity_writer):
                cc = getattr(f, "cache_clear", None)
                if cc:
                    cc()
            continue
        if op[0] == "buildbad":
            # deriving a reader / writer for a class whose description is inconsistent fails; that failure
            # must leave nothing behind (no lock held, no half-built cache entry)
            for f in (entity_reader, entity_writer):
                try:
                    f(bad_class())
                    out.append({"note": "bad_class_accepted", "id": f"t{tid}o{oi}"})
                except BaseException:  # noqa: BLE001
                    out.append({"note": "injected", "id": f"t{tid}o{oi}", "kind": "buildbad"})
            continue
        if op[0] == "churn":
            # classes come and go: `n` times, a throw-away class shaped like pool[ci] (other leaf types, other
            # nested classes) fails to get a reader / writer and is dropped and collected; then pool[ci]'s
            # class is defined afresh (new class and annotation objects, possibly at the addresses just
            # freed) and one value is written and read with it.  What the fresh class produces must be
            # F(description, value) like any other call.
            import gc
            from . import synth
            _, ci, vi, n = op[:4]
            clear = len(op) > 4 and op[4] == "clear"
            ent = pool[ci]
            for r in range(n):
                # "clear": the other route of ClassChurn.tla - the look-alike class is consistent, gets its
                # codecs, cache_clear() drops them, the class is collected
                for f in (entity_writer, entity_reader):
                    try:
                        f(synth.dying_class(ent["schema"], not clear))
                        if not clear:
                            out.append({"note": "bad_class_accepted", "id": f"t{tid}o{oi}"})
                    except BaseException:  # noqa: BLE001
                        pass
                if clear:
                    for f in (entity_reader, entity_writer):
                        cc = getattr(f, "cache_clear", None)
                        if cc:
                            cc()
                gc.collect()
                cls = synth.fresh_class(ent["schema"])
                ent2 = dict(ent, cls=cls,
                            instances=[project.build_entity(v, ent["schema"]) for v in ent["values"]])
                sub: list = []
                run_program(tid, [("w", 0, (vi + r) % 2, 0), ("r", 0, (vi + r) % 2, 0)], [ent2], hook, sub)
                for k, c in enumerate(sub):
                    c["id"] = f"t{tid}o{oi}c{r}_{k}"
                out.extend(sub)
                del cls, ent2, sub
            continue
        kind, ci, vi, fail_at = op
        ent = pool[ci]
        if kind == "wbad":
            # an encode that fails part-way because of the VALUE (not the stream): the outcome of
            # this call is not judged, only what later calls do
            bads = ent["bad"][vi]
            if bads:
                sink = SchedSink(hook, None)
                try:
                    entity_writer(ent["cls"])(sink, bads[fail_at % len(bads)])
                    out.append({"note": "bad_value_accepted", "id": f"t{tid}o{oi}"})
                except BaseException:  # noqa: BLE001
                    out.append({"note": "injected", "id": f"t{tid}o{oi}", "kind": "wbad"})
            continue
        cls, schema = ent["cls"], ent["schema"]
        aval, raw = ent["values"][vi], ent["bytes"][vi]
        cid = f"t{tid}o{oi}"
        if kind == "w":
            inst = ent["instances"][vi]
            sink = SchedSink(hook, fail_at)
            exc = None
            try:
                entity_writer(cls)(sink, inst)
            except BaseException as e:  # noqa: BLE001
                exc = e
            if fail_at and isinstance(exc, InjectedIOError):
                out.append({"note": "injected", "id": cid, "kind": "w", "sid": schema["sid"], "at": fail_at})
                continue
            out.append({"id": cid, "mode": "w1", "sid": schema["sid"], "value": aval,
                        "var": {"expl": 0, "unk": []}, "input": {"raw": []},
                        "wev": RecSink.events(sink),
                        "wout": "ok" if exc is None else "raise:" + type(exc).__name__,
                        "rev": [], "rout": "skipped", "rval": project.NULL, "req": True,
                        "fail_at": fail_at, "err": "" if exc is None else repr(exc)[:200]})
        else:
            src = SchedSource(raw + b"\x5a\xa5", hook, fail_at, budget=4 * len(raw) + 100)
            exc, res = None, None
            try:
                res = entity_reader(cls)(src)
            except BaseException as e:  # noqa: BLE001
                exc = e
            if fail_at and isinstance(exc, InjectedIOError):
                out.append({"note": "injected", "id": cid, "kind": "r", "sid": schema["sid"], "at": fail_at})
                continue
            case = {"id": cid, "mode": "r1", "sid": schema["sid"], "value": aval,
                    "var": {"expl": 0, "unk": []}, "input": project.babs(raw), "wev": [], "wout": "skipped",
                    "rev": RecSource.events(src), "rout": "ok" if exc is None else "raise:" + type(exc).__name__,
                    "rval": project.NULL, "req": True, "fail_at": fail_at,
                    "err": "" if exc is None else repr(exc)[:200]}
            if exc is None:
                try:
                    case["rval"] = project.project_entity(res, schema)
                except Exception as e:  # noqa: BLE001
                    case["rval"] = project.BAD
            out.append(case)


_BAD = []


def bad_class():
    """An entity class with a tagged field in a non-flexible version (the library refuses to derive codecs)."""
    if not _BAD:
        import dataclasses
        from kio.static.constants import EntityType
        from kio.static.primitive import i16, i32

        @dataclasses.dataclass(frozen=True, slots=True, kw_only=True)
        class BadEntity:
            __type__ = EntityType.nested
            __version__ = i16(0)
            __flexible__ = False
            a: i32 = dataclasses.field(metadata={"kafka_type": "int32"})
            t: i32 = dataclasses.field(metadata={"kafka_type": "int32", "tag": 0}, default=i32(0))
        _BAD.append(BadEntity)
    return _BAD[0]


def run_threads(programs: list[list], runs: list[int], pool: list) -> dict:
    bodies = [(lambda hook, out, tid=tid, prog=prog: run_program(tid, prog, pool, hook, out))
              for tid, prog in enumerate(programs)]
    return run_bodies(bodies, runs)


def run_bodies(bodies: list, runs: list[int]) -> dict:
    """Run body(hook, out) of every thread under the baton: exactly one thread runs at a time and the
    baton passes at switch points only (line events in kio's files, and wherever a body calls hook() -
    the instrumented streams call it on every stream operation).  `runs` is the schedule."""
    n = len(bodies)
    if n == 1:
        out: list = []
        bodies[0](lambda: None, out)
        return {"cases": out, "points": 0, "switches": 0, "abandoned": False, "stuck": False}
    baton = Baton(n, runs)
    outs = [[] for _ in range(n)]
    ids = {}

    def ltrace(frame, event, arg):
        if event == "line":
            tid = ids.get(threading.get_ident())
            if tid is not None:
                baton.point(tid)
        return ltrace

    def gtrace(frame, event, arg):
        if event == "call" and frame.f_code.co_filename.startswith(TRACED):
            return ltrace
        return None

    def main(tid):
        ids[threading.get_ident()] = tid
        baton.wait_turn(tid)
        sys.settrace(gtrace)
        try:
            bodies[tid](lambda: baton.point(tid), outs[tid])
        finally:
            sys.settrace(None)
            baton.done(tid)

    threads = [threading.Thread(target=main, args=(i,), daemon=True) for i in range(n)]
    for t in threads:
        t.start()
    for t in threads:
        t.join(60)
    stuck = any(t.is_alive() for t in threads)
    return {"cases": [c for o in outs for c in o], "points": baton.points, "switches": baton.switches,
            "abandoned": baton.abandoned or stuck, "stuck": stuck}


def in_child(fn, timeout: float = 90.0):
    """Run fn() in a forked child (cold kio state); return its JSON-able result."""
    r, w = os.pipe()
    pid = os.fork()
    if pid == 0:
        try:
            os.close(r)
            try:
                res = fn()
            except BaseException as e:  # noqa: BLE001
                res = {"child_error": repr(e)[:500]}
            data = json.dumps(res).encode()
            with os.fdopen(w, "wb") as f:
                f.write(data)
        finally:
            os._exit(0)
    os.close(w)
    chunks = []
    deadline = time.time() + timeout
    with os.fdopen(r, "rb") as f:
        while True:
            left = deadline - time.time()
            if left <= 0:
                os.kill(pid, signal.SIGKILL)
                os.waitpid(pid, 0)
                return {"child_error": "timeout"}
            ready, _, _ = select.select([f], [], [], min(left, 5))
            if ready:
                b = os.read(f.fileno(), 1 << 20)
                if not b:
                    break
                chunks.append(b)
    os.waitpid(pid, 0)
    try:
        return json.loads(b"".join(chunks))
    except json.JSONDecodeError:
        return {"child_error": "no result (child died)"}


# ------------------------------------------------------------------ pool
FIXED_POOL = [
    ("kio.schema.fetch.v15.request", "FetchRequest"), ("kio.schema.fetch.v4.request", "FetchRequest"),
    ("kio.schema.fetch.v15.request", "ReplicaState"), ("kio.schema.fetch.v15.request", "FetchTopic"),
    ("kio.schema.fetch.v12.request", "FetchTopic"),
    ("kio.schema.request_header.v1.header", "RequestHeader"), ("kio.schema.request_header.v2.header", "RequestHeader"),
    ("kio.schema.api_versions.v3.response", "ApiVersionsResponse"),
    ("kio.schema.api_versions.v4.response", "ApiVersionsResponse"),
    ("kio.schema.update_raft_voter.v0.response", "UpdateRaftVoterResponse"),
    ("kio.schema.describe_topic_partitions.v0.response", "DescribeTopicPartitionsResponse"),
    ("kio.schema.describe_topic_partitions.v0.request", "DescribeTopicPartitionsRequest"),
    ("kio.schema.metadata.v12.response", "MetadataResponse"), ("kio.schema.metadata.v5.response", "MetadataResponse"),
    ("kio.schema.alter_client_quotas.v1.request", "AlterClientQuotasRequest"),
    ("kio.schema.describe_client_quotas.v1.response", "DescribeClientQuotasResponse"),
    ("kio.schema.create_topics.v5.response", "CreateTopicsResponse"),
    ("kio.schema.produce.v9.response", "ProduceResponse"),
    ("kio.schema.fetch.v17.response", "FetchResponse"),
]
def _sf(name, kt, tag=-1, hasd=False, dflt=None):
    return {"name": name, "kind": "prim", "arr": False, "ktype": kt, "nul": False, "inul": False, "tag": tag,
            "hasd": hasd, "dflt": dflt if dflt is not None else project.NULL, "sub": project.DUMMY_SUB}


# two DIFFERENT entity classes with the same __module__ and __qualname__ (a class produced twice by a
# factory, or redefined): a cache keyed by name instead of by class conflates them
_BASE = {"name": "BaseEntity", "flex": True, "fields": [_sf("a", "int32"), _sf("t", "int16", 0, True, {"int": 7})]}
# ... and an entity class derived from another one (its fields extend the base's): whatever is cached for
# the base must not be found for the derived class.  The twins stay the LAST two entries.
_CHILD = {"name": "SharedChild", "flex": True, "fields": [_sf("x", "int32"), _sf("y", "string")]}


def _struct(name, sub, nul):
    return {"name": name, "kind": "struct", "arr": False, "ktype": "", "nul": nul, "inul": False, "tag": -1,
            "hasd": nul, "dflt": project.NULL, "sub": sub}


# two parents embedding the SAME child class, one as an optional struct (KIP-893 marker byte) and one as a
# plain struct: whatever is cached for the child must not carry the parent's nullability.  They come first;
# the derived pair and the twins keep their places at the end.
SYNTH_POOL = [
    ("<synth>", {"name": "ParentOptional", "flex": True, "fields": [_sf("a", "int8"), _struct("c", _CHILD, True)]}),
    ("<synth>", {"name": "ParentPlain", "flex": True, "fields": [_sf("a", "int8"), _struct("c", _CHILD, False)]}),
    ("<synth>", _BASE),
    ("<synth>", {"name": "DerivedEntity", "flex": True, "base": _BASE,
                 "fields": _BASE["fields"] + [_sf("extra", "string"), _sf("u", "int8", 1, True, {"int": 3})]}),
    ("<synth>", {"name": "Twin", "flex": True, "fields": [_sf("a", "int32"), _sf("t", "int16", 0, True, {"int": 7})]}),
    ("<synth>", {"name": "Twin", "flex": False, "fields": [_sf("s", "string"), _sf("a", "int8")]}),
]

# the model's classes: A has a nested B inside a flexible struct, H is a non-flexible header
MODEL_CLASSES = {"A": 0, "B": 2, "H": 5}


def build_pool_inputs(seed: int, extra: int) -> tuple[list, dict]:
    """(pool entries without bytes, CodecEncode input) - values drawn so that tagged fields are set."""
    import importlib
    import random
    from .absval import Sampler
    rng = random.Random(seed)
    names = list(FIXED_POOL)
    allc = sorted(project.all_entity_classes(), key=project.sid_of)
    for cls in rng.sample(allc, extra):
        names.append((cls.__module__, cls.__qualname__))
    pool, schemas, cases = [], {}, []
    names += SYNTH_POOL
    for ci, (mod, qual) in enumerate(names):
        if mod == "<synth>":
            from . import synth
            schema = synth.attach_sids(json.loads(json.dumps(qual)))
            synth.make_class(schema)
        else:
            cls = getattr(importlib.import_module(mod), qual)
            schema = project.project_schema(cls)
        schemas[schema["sid"]] = schema
        values = []
        for vi in range(2):
            s = Sampler(seed * 7919 + ci * 31 + vi, profile=["max", "mixed"][vi])
            v = s.value(schema, budget=80)
            values.append(v)
        if has_float(schema):
            s = Sampler(seed * 7919 + ci * 31, profile="max")
            values = signed_zero_pair([s.value(schema, budget=80)], schema)
        for vi, v in enumerate(values):
            cases.append({"id": f"pool{ci}_{vi}", "sid": schema["sid"], "value": v, "var": {"expl": 0, "unk": []}})
        pool.append({"mod": mod, "qual": qual if mod != "<synth>" else schema, "sid": schema["sid"], "values": values})
    return pool, {"schemas": schemas, "cases": cases}


def materialise_pool(pool: list, encoded: list) -> list:
    import importlib
    # import (but never use) everything the runs need: a thread preempted inside an import would
    # hold the import lock and block the other thread
    import kio.serial  # noqa: F401
    import kio.serial.errors  # noqa: F401
    import kio.records.readers  # noqa: F401
    import kio.records.writers  # noqa: F401
    enc = {e["id"]: e for e in encoded}
    out = []
    for ci, ent in enumerate(pool):
        if ent["mod"] == "<synth>":
            from . import synth
            schema = ent["qual"]
            cls = synth.make_class(schema)
        else:
            cls = getattr(importlib.import_module(ent["mod"]), ent["qual"])
            schema = project.project_schema(cls)
        insts = [project.build_entity(v, schema) for v in ent["values"]]
        out.append({"cls": cls, "schema": schema, "values": ent["values"], "synth": ent["mod"] == "<synth>",
                    "instances": insts, "bad": [bad_variants(i, schema) for i in insts],
                    "bytes": [project.unbabs(enc[f"pool{ci}_{vi}"]["b"]) for vi in range(2)]})
    return out


def bad_variants(inst, schema: dict, limit: int = 6) -> list:
    """Instances that make the encoder raise part-way: one field (preferring tagged and late ones,
    also inside nested structs) replaced by a value its writer cannot encode."""
    import dataclasses
    out = []

    def bad_for(fs):
        if fs["kind"] == "struct":
            return None
        kt = fs["ktype"]
        if fs["arr"]:
            return ("\ud800",) if kt == "string" else (2**70,) if kt.startswith(("int", "uint")) else None
        if kt == "string":
            return "\ud800"
        if kt.startswith(("int", "uint")):
            return 2**70
        if kt in ("bytes", "records"):
            return 12345
        return None

    def walk(obj, sch, rebuild):
        fields = sorted(sch["fields"], key=lambda f: (f["tag"] < 0, -sch["fields"].index(f)))
        for fs in fields:
            if len(out) >= limit:
                return
            b = bad_for(fs)
            if b is not None:
                try:
                    out.append(rebuild(dataclasses.replace(obj, **{fs["name"]: b})))
                except Exception:  # noqa: BLE001
                    pass
            elif fs["kind"] == "struct":
                v = getattr(obj, fs["name"])
                if fs["arr"] and v:
                    walk(v[-1], fs["sub"], lambda x, fs=fs, v=v: rebuild(
                        dataclasses.replace(obj, **{fs["name"]: v[:-1] + (x,)})))
                elif not fs["arr"] and v is not None:
                    walk(v, fs["sub"], lambda x, fs=fs: rebuild(dataclasses.replace(obj, **{fs["name"]: x})))

    walk(inst, schema, lambda x: x)
    return out


def signed_zero_pair(values: list, schema: dict) -> list:
    """values[0] with every float +0.0 and values[1] = the same with -0.0: equal Python values that
    must encode differently (a memo keyed by == would confuse them)."""
    from .project import afloat

    def subst(a, sch, z):
        if "rec" not in a:
            return a
        res = []
        for fs, x in zip(sch["fields"], a["rec"]):
            if fs["kind"] == "struct":
                if "seq" in x:
                    x = {"seq": [subst(i, fs["sub"], z) for i in x["seq"]]}
                else:
                    x = subst(x, fs["sub"], z)
            elif fs["ktype"] == "float64" and "f64" in x:
                x = afloat(z)
            res.append(x)
        return {"rec": res}
    return [subst(values[0], schema, 0.0), subst(values[0], schema, -0.0)]


def has_float(schema: dict) -> bool:
    return any((fs["kind"] == "struct" and has_float(fs["sub"])) or fs["ktype"] == "float64"
               for fs in schema["fields"])


def count_ops(pool: list) -> list:
    """Number of stream operations of each clean call (run in a child; used to aim failure points)."""
    def fn():
        res = []
        for ci in range(len(pool)):
            row = []
            for vi in range(2):
                o: list = []
                run_program(0, [("w", ci, vi, 0), ("r", ci, vi, 0)], pool, lambda: None, o)
                row.append([len(o[0]["wev"]), len(o[1]["rev"])])
            res.append(row)
        return res
    return in_child(fn)


def count_points(pool: list) -> list:
    """Switch points of one warm write / read call of each class (both threads' calls together, halved):
    used to sweep a preemption over the whole of a warm call."""
    def fn():
        res = []
        for ci in range(len(pool)):
            o: list = []
            run_program(0, [("w", ci, 0, 0), ("w", ci, 1, 0), ("r", ci, 0, 0), ("r", ci, 1, 0)], pool, lambda: None, o)
            row = []
            for kind in ("w", "r"):
                r = run_threads([[(kind, ci, 0, 0)], [(kind, ci, 1, 0)]], [10**9], pool)
                row.append(r["points"] // 2 + 3)
            res.append(row)
        return res
    return in_child(fn, timeout=300.0)

