"""Check C19: statelessness of entity_reader / entity_writer across histories, failure points and
thread schedules (spec/Registry.tla, RegistrySim.tla, CodecTrace.tla)."""
from __future__ import annotations

import hashlib
import json
import os
import random

from . import codec_driver, project, sched, tlc
from .checklib import Check, Machinery
from .checks_codec import pmap, encode_with_spec

_POOL = None


def _pool(spec):
    global _POOL
    if _POOL is None:
        _POOL = sched.materialise_pool(spec["pool"], spec["encoded"])
    return _POOL


def run_batch(args) -> dict:
    """Worker: run work items, each in a forked child; return unique cases and statistics."""
    spec, items = args
    codec_driver.limit_memory(6.0)
    pool = _pool(spec)
    uniq: dict[str, dict] = {}
    stats = {"runs": 0, "cases": 0, "injected": 0, "abandoned": 0, "errors": [], "points": 0, "switches": 0,
             "stuck": []}
    for it in items:
        def run_item(it=it):
            warm: list = []
            if it.get("warmup"):        # sequential calls before the threads start (warm caches)
                sched.run_program(0, it["warmup"], pool, lambda: None, warm)
                for c in warm:
                    c["id"] = "warm_" + c["id"]
            res = sched.run_threads(it["programs"], it.get("runs", []), pool)
            res["cases"] = warm + res["cases"]
            return res
        res = sched.in_child(run_item)
        stats["runs"] += 1
        if "child_error" in res:
            stats["errors"].append({"item": it["id"], "error": res["child_error"]})
            continue
        stats["points"] += res["points"]
        stats["switches"] += res["switches"]
        stats["abandoned"] += int(res["abandoned"])
        if res.get("stuck"):
            # a thread never came back (60 s): once more in a fresh child before it is called a deadlock
            again = sched.in_child(run_item, timeout=150.0)
            if again.get("stuck") or again.get("child_error") == "timeout":
                stats["stuck"].append({"item": it["id"], "programs": it["programs"], "runs": it.get("runs", [])[:8]})
        for c in res["cases"]:
            if "note" in c:
                stats["injected"] += 1
                continue
            stats["cases"] += 1
            body = json.dumps([c["mode"], c["sid"], c["value"], c["input"], c["wev"], c["wout"], c["rev"],
                               c["rout"], c["rval"]], sort_keys=True)
            h = hashlib.blake2b(body.encode(), digest_size=10).hexdigest()
            if h not in uniq:
                c = dict(c)
                c["id"] = h
                c["first_seen"] = {"item": it["id"], "programs": it["programs"], "runs": it.get("runs", [])[:8],
                                   "op": c.get("err", "")}
                uniq[h] = c
    return {"uniq": list(uniq.values()), "stats": stats}


def sim_histories(chk: Check, num: int) -> list[list[dict]]:
    res = tlc.run_tlc("RegistrySim", workers=1, timeout=1200,
                      simulate=f"num={num}", extra=["-depth", "150", "-seed", str(chk.seed + 7)])
    hs = tlc.parse_json_lines(res["out"])
    if "Invariant ResultIsFunction is violated" in res["out"] or not hs:
        raise Machinery(f"RegistrySim produced no behaviours / violated:\n{res['out'][-1500:]}")
    # keep the longest history of each behaviour (Export prints again after every Evict)
    hs.sort(key=len, reverse=True)
    keep: list[list[dict]] = []
    seen = set()
    for h in hs:
        k = json.dumps(h[:20])
        if k not in seen:
            seen.add(k)
            keep.append(h)
    chk.add_tlc("RegistrySim(simulate)", res)
    return keep


PLAN_LEN = {"A": 11, "B": 4, "H": 2}


def history_to_item(hid: str, hist: list[dict], nops: list, concurrent: bool) -> dict:
    progs: dict[int, list] = {1: [], 2: []}
    pending_clear = False
    order = []
    for e in hist:
        if e["a"] == "evict":
            pending_clear = True
            continue
        t = e["t"]
        if e["a"] == "start":
            if pending_clear:
                progs[t].append(("clear",))
                pending_clear = False
            ci = sched.MODEL_CLASSES[e["cls"]]
            vi = e["val"] - 1
            n = nops[ci][vi][0 if e["kind"] == "w" else 1]
            k = 0 if e["fail"] == 0 else max(1, min(n, round(e["fail"] * n / PLAN_LEN[e["cls"]])))
            progs[t].append((e["kind"], ci, vi, k))
        order.append(t)
    if not concurrent:
        # sequential replay in the order the calls were started
        seq, idx = [], {1: 0, 2: 0}
        for e in hist:
            if e["a"] == "start":
                t = e["t"]
                while idx[t] < len(progs[t]) and progs[t][idx[t]][0] == "clear":
                    seq.append(progs[t][idx[t]])
                    idx[t] += 1
                if idx[t] < len(progs[t]):
                    seq.append(progs[t][idx[t]])
                    idx[t] += 1
        return {"id": hid, "programs": [seq]}
    runs, last, n = [], None, 0
    for t in order:
        if t == last:
            n += 1
        else:
            if last is not None:
                runs.append(n * 14)
            last, n = t, 1
    runs.append(n * 14)
    first = order[0] if order else 1
    programs = [progs[first], progs[3 - first]]
    return {"id": hid, "programs": programs, "runs": runs}


def churn_items(cis, n: int) -> list[dict]:
    """(g) classes come and go: throw-away look-alike classes fail to get codecs and are collected, then
    the class is defined afresh and used (see sched.run_program, op "churn")."""
    items = []
    for ci in cis:
        items.append({"id": f"churn{ci}", "programs": [[("churn", ci, 0, n)]]})
        items.append({"id": f"churnw{ci}", "programs": [[("w", ci, 0, 0), ("r", ci, 1, 0), ("churn", ci, 1, n)]]})
        items.append({"id": f"churnc{ci}", "programs": [[("w", ci, 1, 0), ("churn", ci, 0, n, "clear")]]})
    return items


def make_items(chk: Check, nops: list, npool: int, thorough: bool, hists: list, npoints: list,
               mini=None, synth_idx=()) -> list[dict]:
    rng = random.Random(chk.seed + 5)
    items = churn_items([ci for ci in synth_idx if mini is None or ci in mini], 60 if thorough else 16 if mini is None else 8)
    if mini is not None:
        sel = sorted(ci for ci in mini if ci < npool)
        for ci in sel:
            warm = [("w", ci, 0, 0), ("w", ci, 1, 0), ("r", ci, 0, 0), ("r", ci, 1, 0)]
            for ki, kind in enumerate("wr"):
                P = npoints[ci][ki]
                for k in sorted({1 + (j * P) // 24 for j in range(24)}):
                    items.append({"id": f"hot_{kind}{ci}_{k}", "warmup": warm,
                                  "programs": [[(kind, ci, 0, 0)], [(kind, ci, 1, 0)]], "runs": [k, 10**9]})
            for vi in (0, 1):
                for kind, n in (("w", nops[ci][vi][0]), ("r", nops[ci][vi][1])):
                    ks = list(range(1, n + 1))
                    if len(ks) > 16:
                        ks = sorted(set(ks[:5] + ks[-5:] + rng.sample(ks, 6)))
                    for k in ks:
                        items.append({"id": f"fail_{kind}{ci}_{vi}_{k}",
                                      "programs": [[(kind, ci, vi, k), (kind, ci, 1 - vi, 0), (kind, ci, vi, 0),
                                                    ("w" if kind == "r" else "r", ci, vi, 0)]]})
                for j in range(3):
                    items.append({"id": f"bad{ci}_{vi}_{j}",
                                  "programs": [[("wbad", ci, vi, j), ("w", ci, 1 - vi, 0), ("w", ci, vi, 0),
                                                ("r", ci, vi, 0)]]})
            items.append({"id": f"eq{ci}a", "programs": [[("w", ci, 0, 0), ("w", ci, 1, 0), ("w", ci, 0, 0)]]})
        # a derived entity class and its base, in both creation orders; the same-named twins
        for a, b in ((npool - 4, npool - 3), (npool - 3, npool - 4), (npool - 2, npool - 1), (npool - 1, npool - 2),
                     (npool - 6, npool - 5), (npool - 5, npool - 6)):
            items.append({"id": f"inh{a}_{b}", "programs": [[("w", a, 0, 0), ("w", b, 0, 0), ("r", a, 1, 0), ("r", b, 1, 0),
                                                             ("w", b, 1, 0), ("w", a, 1, 0)]]})
        return items
    # (f) warm caches, two threads in the SAME cached reader / writer with different values: thread 0 is
    # preempted after k switch points of its call, thread 1 runs its whole call, thread 0 resumes
    cap = 10**6 if thorough else 70
    for ci in range(npool):
        warm = [("w", ci, 0, 0), ("w", ci, 1, 0), ("r", ci, 0, 0), ("r", ci, 1, 0)]
        for ki, kind in enumerate("wr"):
            P = npoints[ci][ki]
            ks = list(range(1, P + 1)) if P <= cap else sorted({1 + (j * P) // cap for j in range(cap)})
            for k in ks:
                other = kind if k % 5 else ("r" if kind == "w" else "w")
                items.append({"id": f"hot_{kind}{ci}_{k}", "warmup": warm,
                              "programs": [[(kind, ci, 0, 0)], [(other, ci, 1, 0)]], "runs": [k, 10**9]})
    # (a) every failure position of every call once, followed by clean calls of the same codec
    cap = 400 if thorough else 24
    for ci in range(npool):
        for vi in (0, 1):
            for kind, n in (("w", nops[ci][vi][0]), ("r", nops[ci][vi][1])):
                ks = list(range(1, n + 1))
                if len(ks) > cap:
                    ks = sorted(set(ks[:8] + ks[-8:] + rng.sample(ks, cap - 16)))
                for k in ks:
                    items.append({"id": f"fail_{kind}{ci}_{vi}_{k}",
                                  "programs": [[(kind, ci, vi, k), (kind, ci, 1 - vi, 0), (kind, ci, vi, 0),
                                                ("w" if kind == "r" else "r", ci, vi, 0)]]})
    # (a') an encode that fails because of the value, in every field position the pool offers
    for ci in range(npool):
        for vi in (0, 1):
            for j in range(6):
                items.append({"id": f"bad{ci}_{vi}_{j}",
                              "programs": [[("wbad", ci, vi, j), ("w", ci, 1 - vi, 0), ("w", ci, vi, 0),
                                            ("wbad", ci, 1 - vi, j), ("w", (ci + 1) % npool, vi, 0), ("r", ci, vi, 0)]]})
    # (a'') equal-but-distinct values (signed zeros) in both orders
    for ci in range(npool):
        items.append({"id": f"eq{ci}a", "programs": [[("w", ci, 0, 0), ("w", ci, 1, 0), ("w", ci, 0, 0)]]})
        items.append({"id": f"eq{ci}b", "programs": [[("w", ci, 1, 0), ("w", ci, 0, 0), ("r", ci, 1, 0)]]})
    # (b) random histories over the pool: creation orders, reuse, failures, cache clears
    for i in range(1500 if thorough else 250):
        L = rng.randrange(3, 12)
        prog = []
        for _ in range(L):
            c = rng.random()
            ci, vi = rng.randrange(npool), rng.randrange(2)
            kind = rng.choice("wr")
            if c < 0.08:
                prog.append(("clear",))
            elif c < 0.16:
                prog.append(("wbad", ci, vi, rng.randrange(6)))
            elif c < 0.35:
                n = nops[ci][vi][0 if kind == "w" else 1]
                prog.append((kind, ci, vi, rng.randrange(1, n + 1) if n else 0))
            else:
                prog.append((kind, ci, vi, 0))
        for ci in sorted({p[1] for p in prog if p[0] not in ("clear", "buildbad")}):
            prog += [("w", ci, 0, 0), ("r", ci, 1, 0)]
        items.append({"id": f"hist{i}", "programs": [prog]})
    # (c) behaviours of the Registry model, sequentially and with their thread interleaving
    for i, h in enumerate(hists):
        items.append(history_to_item(f"sim_seq{i}", h, nops, False))
        items.append(history_to_item(f"sim_par{i}", h, nops, True))
    # (d) line-granularity preemption: two threads build and use codecs from cold caches
    pairs = [(0, 0), (0, 1), (0, 2), (5, 6), (7, 8), (3, 4), (9, 10), (12, 13), (2, 0), (7, 7)]
    pairs += [(rng.randrange(npool - 2), rng.randrange(npool - 2)) for _ in range(20 if thorough else 4)]
    per_pair = 260 if thorough else 34
    for a, b in pairs:
        pa = [("w", a, 0, 0), ("r", a, 0, 0), ("w", a, 1, 0)]
        pb = [("w", b, 1, 0), ("r", b, 1, 0), ("w", b, 0, 0)]
        for j in range(per_pair):
            d = rng.choice([1, 1, 1, 2, 3])
            runs = [rng.randrange(1, 900 if d == 1 else 400) for _ in range(d)]
            items.append({"id": f"sched{a}_{b}_{j}", "programs": [pa, pb] if j % 2 == 0 else [pb, pa],
                          "runs": runs})
    # (d') the same-named twin classes, in both creation orders, sequentially and concurrently
    tw = [i for i in range(npool - 2, npool)]
    for a, b in ((tw[0], tw[1]), (tw[1], tw[0])):
        items.append({"id": f"twin{a}_{b}", "programs": [[("w", a, 0, 0), ("w", b, 0, 0), ("r", a, 1, 0), ("r", b, 1, 0),
                                                          ("w", a, 1, 0), ("w", b, 1, 0)]]})
    # (d+) a derived entity class and its base, in both creation orders, sequentially and from cold caches
    # with a swept preemption
    bi, di = npool - 4, npool - 3
    for a, b in ((bi, di), (di, bi), (npool - 6, npool - 5), (npool - 5, npool - 6)):
        items.append({"id": f"inh{a}_{b}", "programs": [[("w", a, 0, 0), ("w", b, 0, 0), ("r", a, 1, 0), ("r", b, 1, 0),
                                                         ("w", b, 1, 0), ("w", a, 1, 0)]]})
        for k in range(1, 400, 9 if not thorough else 2):
            items.append({"id": f"inhc{a}_{b}_{k}", "programs": [[("w", a, 0, 0), ("r", a, 1, 0)], [("w", b, 1, 0), ("r", b, 0, 0)]],
                          "runs": [k, 10**9]})
    # (d++) deriving codecs for an inconsistent class fails; the failure leaves nothing behind - another
    # thread (or the same one) can still derive and use codecs afterwards
    for ci in (0, 5, 9, di):
        items.append({"id": f"bb_seq{ci}", "programs": [[("buildbad",), ("w", ci, 0, 0), ("r", ci, 1, 0)]]})
        items.append({"id": f"bb_then{ci}", "programs": [[("buildbad",)], [("w", ci, 0, 0), ("r", ci, 1, 0)]],
                      "runs": [10**9]})
        for k in range(1, 200, 13 if not thorough else 3):
            items.append({"id": f"bb_par{ci}_{k}", "programs": [[("buildbad",), ("w", ci, 1, 0)], [("w", ci, 0, 0), ("r", ci, 1, 0)]],
                          "runs": [k, 10**9]})
    # (d'') cold-start sweep on a class whose tagged struct has no explicit default (both threads need the
    # implicit-default machinery at once)
    for k in range(1, 700 if thorough else 500, 1 if thorough else 4):
        items.append({"id": f"cold{k}", "programs": [[("w", 9, 0, 0), ("r", 9, 1, 0)], [("r", 9, 0, 0), ("w", 9, 1, 0)]],
                      "runs": [k]})
    # (e) exhaustive single-preemption sweep on the model's pair (A with nested B vs B)
    for k in range(1, 1200 if thorough else 420, 1 if thorough else 3):
        items.append({"id": f"sweep{k}", "programs": [[("w", 0, 0, 0), ("r", 0, 1, 0)], [("w", 2, 1, 0), ("w", 0, 1, 0)]],
                      "runs": [k]})
    return items


def check_C19(chk: Check, replay) -> None:
    chk.assumptions += [
        "C-level internals of functools.cache and dict are atomic under the GIL; preemption inside them is "
        "not explored; switch points are line events of kio's own files (sys.settrace) and stream operations",
        "every run starts in a freshly forked child of a process that imported kio but built no codec, so "
        "state introduced anywhere in kio starts empty",
        "the reference result F(class, value) is the definitional codec of spec/KafkaCodec.tla, evaluated by TLC",
    ]
    chk.cov["rule"] = ("a case is one run (a sequential history or a two-thread schedule) from cold caches: "
                       "failure at every stream operation of every call followed by clean calls, random "
                       "histories with cache clears, Registry-model behaviours replayed sequentially and with "
                       "their interleaving, random and swept line-level preemption from cold caches, and a swept "
                       "preemption of two warm calls of the same cached reader/writer; distinct = distinct runs; "
                       "every completed clean call is judged against F(class, value) by CodecTrace")
    thorough = chk.tier == "thorough"
    # ---- model checking: the design, the two seeded designs (must fail), liveness
    # the quick and the eviction configurations always run, with TLC's action coverage (every action of
    # the next-state relation must have been taken; Start is reported by TLC under Next); thorough adds
    # the full configuration
    COV = {"MC_Registry_quick.cfg": ["Next", "BuildStep", "UseStep", "Fail", "Finish"],
           "MC_Registry_evict.cfg": ["Next", "BuildStep", "UseStep", "Fail", "Finish", "Evict"]}
    for cfg, must_fail in ([("MC_Registry_quick.cfg", False), ("MC_Registry_evict.cfg", False)]
                           + ([("MC_Registry.cfg", False)] if thorough else [])
                           + [("MC_Registry_neg1.cfg", True), ("MC_Registry_neg2.cfg", True)]):
        res = tlc.run_tlc("Registry", cfg=cfg, workers=16, timeout=4 * 3600, xmx="16g", coverage=cfg in COV)
        violated = "Invariant ResultIsFunction is violated" in res["out"]
        if must_fail and not violated:
            raise Machinery(f"{cfg}: TLC found no counterexample for a shared staging buffer - the model's "
                            f"histories/interleavings are too poor:\n{res['out'][-1200:]}")
        if not must_fail and not tlc.tlc_ok(res):
            raise Machinery(f"{cfg} failed:\n{res['out'][-2000:]}")
        if cfg in COV:
            tlc.require_actions(res, COV[cfg], f"Registry/{cfg}")
        chk.add_tlc(f"Registry/{cfg}", res)
    res = tlc.run_tlc("Registry", cfg="MC_Registry_live.cfg", workers=4, timeout=3000, xmx="8g")
    if not tlc.tlc_ok(res):
        raise Machinery(f"MC_Registry_live failed:\n{res['out'][-2000:]}")
    chk.add_tlc("Registry/MC_Registry_live.cfg", res)
    # ---- classes that come and go (ClassChurn.tla): the design and a weak memo hold, a memo keyed by the
    # address of an object that may have died must give a counterexample (fail, collect, reuse)
    CH = ["Define", "Look", "FailBuild", "FinishBuild", "Collect", "ClearCache"]
    for cfg, must_fail in (("MC_ClassChurn_none.cfg", False), ("MC_ClassChurn_weak.cfg", False),
                           ("MC_ClassChurn_id.cfg", True)):
        res = tlc.run_tlc("ClassChurn", cfg=cfg, workers=4, timeout=1800, xmx="4g", coverage=not must_fail)
        violated = "Invariant ClassifiedByDescription is violated" in res["out"]
        if must_fail and not violated:
            raise Machinery(f"{cfg}: TLC found no counterexample for a memo keyed by a dead object's address:\n"
                            f"{res['out'][-1200:]}")
        if not must_fail:
            if not tlc.tlc_ok(res):
                raise Machinery(f"{cfg} failed:\n{res['out'][-2000:]}")
            tlc.require_actions(res, CH, f"ClassChurn/{cfg}")
        chk.add_tlc(f"ClassChurn/{cfg}", res)
    hists = sim_histories(chk, 400 if thorough else 60)
    history_core(chk, thorough, hists, None)


def history_section(chk: Check) -> None:
    """A compact version of the C19 runs for the codec properties (C01, C02, C03, C05, C07): what a
    reader or writer produces for (class, value) must be the specified result in every context, so a few
    classes with tagged fields are run after failed calls at every stream operation, after value-caused
    failures, and with two threads inside the same warm reader / writer preempted at swept points.  Every
    completed clean call is validated by CodecTrace against the definitional codec."""
    history_core(chk, False, [], {0, 6, 8, 9, 16, 10 + chk.seed % 3})


def history_core(chk: Check, thorough: bool, hists: list, mini) -> None:
    # ---- the pool and its specified encodings
    pool, enc_in = sched.build_pool_inputs(chk.seed + 1, 30 if thorough else (0 if mini else 6))
    p = os.path.join(chk.scratch, "hpool.json" if mini else "pool.json")
    codec_driver.write_shard(p, enc_in["schemas"], enc_in["cases"])
    encoded = encode_with_spec(chk, [p])[p]
    spec = {"pool": pool, "encoded": encoded}
    mpool = sched.materialise_pool(pool, encoded)
    nops = sched.count_ops(mpool)
    if isinstance(nops, dict):
        raise Machinery(f"dry run failed: {nops}")
    npoints = sched.count_points(mpool)
    if isinstance(npoints, dict):
        raise Machinery(f"dry run (switch points) failed: {npoints}")
    synth_idx = [ci for ci, ent in enumerate(pool) if ent["mod"] == "<synth>"]
    items = make_items(chk, nops, len(pool), thorough, hists, npoints, mini, synth_idx)
    random.Random(chk.seed).shuffle(items)
    K = 16
    batches = [(spec, items[i::K]) for i in range(K)]
    results = pmap(run_batch, batches)
    uniq: dict[str, dict] = {}
    stats = {"runs": 0, "cases": 0, "injected": 0, "abandoned": 0, "errors": [], "points": 0, "switches": 0,
             "stuck": []}
    for r in results:
        for c in r["uniq"]:
            uniq.setdefault(c["id"], c)
        for k, v in r["stats"].items():
            stats[k] = stats[k] + v if not isinstance(v, list) else stats[k] + v
    for st in stats["stuck"][:5]:
        chk.violation("call_never_returns", f"run {st['item']}: a thread did not finish within 60 s, twice (a lock that "
                      f"is never released, or a loop): programs={json.dumps(st['programs'])[:300]} runs={st['runs']}",
                      {"kind": "history", "first_seen": st})
    if len(stats["errors"]) > max(3, stats["runs"] // 50):
        raise Machinery(f"too many runs without result: {stats['errors'][:5]}")
    cases = list(uniq.values())
    # canary: a completed call whose output was perturbed must be rejected
    donor = next(c for c in cases if c["mode"] == "w1" and c["wout"] == "ok" and any(e["n"] > 0 for e in c["wev"]))
    can = json.loads(json.dumps(donor))
    can["id"] = "canary_scratch"
    from .checks_codec import corrupt_babs
    corrupt_babs(next(e for e in can["wev"] if e["n"] > 0)["d"])
    cases.append(can)
    shards = []
    for i in range(K):
        part = cases[i::K]
        if not part:
            continue
        sp = os.path.join(chk.scratch, f"{'hreg' if mini else 'reg'}{i}.json")
        codec_driver.write_shard(sp, enc_in["schemas"], part)
        shards.append(sp)
    res = tlc.validate_shards("CodecTrace", shards, jobs=16)
    verdicts = {v["id"]: v["fails"] for v in res["verdicts"]}
    if not verdicts.get("canary_scratch"):
        raise Machinery("canary was not rejected by CodecTrace")
    chk.add_tlc("CodecTrace(w1/r1)" + ("/contexts" if mini else ""), res, traces=stats["cases"])
    if not mini:
        chk.count(stats["runs"])
        chk.cov["distinct_nontrivial"] = stats["runs"]
    chk.notes.append(f"{stats['runs']} runs ({len(items)} planned) from cold caches: {stats['cases']} completed clean "
                     f"calls ({len(cases) - 1} distinct observations), {stats['injected']} injected failures, "
                     f"{stats['switches']} thread switches at {stats['points']} switch points, "
                     f"{stats['abandoned']} schedules abandoned, {len(stats['errors'])} runs without result; "
                     f"{len(hists)} Registry-model behaviours replayed; canary rejected")
    if not mini:
        chk.sample({"run": items[0]})
        chk.sample({"schedule": next(i for i in items if i["id"].startswith("sched"))})
    for c in cases:
        if c["id"] == "canary_scratch":
            continue
        f = verdicts.get(c["id"])
        if f is None:
            raise Machinery(f"no verdict for {c['id']}")
        if any(x.startswith("harness_") for x in f):
            raise Machinery(f"case {c['id']}: {f} first seen {c['first_seen']}")
        if f:
            fs = c["first_seen"]
            chk.violation("+".join(sorted(f))[:70] + ":" + c["sid"].split(":")[-1],
                          f"{c['sid']} {c['mode']} result depends on history/schedule: {sorted(f)} {c.get('err', '')}; "
                          f"first seen in run {fs['item']} programs={json.dumps(fs['programs'])[:300]} runs={fs['runs']}",
                          {"kind": "history", "first_seen": fs, "sid": c["sid"]})
